---------------------------------- MODULE Bindings_Gen ----------------------------------
(* C11 spec -> code: behaviours of the required specification (Bindings.tla) leave TLC as        *)
(* histories of API-level steps, each with the values every thread must then see:                 *)
(*   push (one whole establishment: ok, or failed and rolled back), set, pop, throw n,             *)
(*   spawn c kind, finish.                                                                        *)
(* An establishment is atomic here (no other thread moves while one is under way): bindings are    *)
(* thread-local, and the replay steps real threads at this granularity.  The iteration order is   *)
(* fixed: what must be seen afterwards does not depend on it; the driver realises every failure    *)
(* position by its choice of real Vars.                                                            *)
EXTENDS Bindings, Json

CONSTANT D          \* steps per history
VARIABLE hist
gvars == <<ord, st, stack, frames, push, chk, waitfor, last, hist>>

GDyn == {"a", "b", "c"}
GM(a, b, c, n) == LET S == (IF a = 0 THEN {} ELSE {"a"}) \cup (IF b = 0 THEN {} ELSE {"b"}) \cup (IF c = 0 THEN {} ELSE {"c"})
                              \cup (IF n = 0 THEN {} ELSE {"n"})
                  IN [v \in S |-> CASE v = "a" -> a [] v = "b" -> b [] v = "c" -> c [] OTHER -> n]
GBad == 9
(* the values of one Var differ from map to map, so that WHICH binding is visible can be told from the value *)
GMaps == {GM(1, 0, 0, 0), GM(0, 2, 0, 0), GM(2, 1, 0, 0), GM(3, 3, 2, 0), GM(4, 0, 0, 1), GM(5, 9, 0, 0), GM(6, 4, 0, 1),
          GM(0, 0, 0, 1), GM(9, 0, 1, 0), GM(8, 5, 9, 0)}
GMapsSmall == {GM(1, 0, 0, 0), GM(2, 2, 0, 0), GM(3, 0, 0, 1), GM(4, 9, 1, 0), GM(0, 1, 2, 1), GM(0, 0, 3, 0)}
GMapsQ == {GM(1, 0, 0, 0), GM(2, 2, 0, 0), GM(3, 0, 0, 1), GM(4, 9, 1, 0)}
GVals == {7}
GOrders == {<<"a", "b", "c", "n">>}
AllKinds == {"future", "boundfn", "pmap", "raw"}
T1 == {1}
T2 == {1, 2}
T3 == {1, 2, 3}

NoMap == [v \in {} |-> 0]
ObsNow == [u \in Threads |-> [st |-> st'[u],
                              vals |-> [v \in DynVars |-> IF stack'[u][v] = << >> THEN RootVal
                                                         ELSE stack'[u][v][Len(stack'[u][v])]]]]
E(t, act, m, v, x, n, c, kind, ok) ==
  hist' = Append(hist, [t |-> t, act |-> act, m |-> m, v |-> v, x |-> x, n |-> n, c |-> c, kind |-> kind, ok |-> ok,
                        obs |-> ObsNow])
Quiet == hist' = hist

GInit == BInit /\ hist = << >>
GStep(t) ==
  \/ (\E m \in Maps : BeginPush(t, m)) /\ Quiet
  \/ (PushOne(t) \/ PushFail(t)) /\ Quiet
  \/ CommitFrame(t) /\ E(t, "push", push[t].m, "-", 0, 0, 0, "-", TRUE)
  \/ Rollback(t) /\ E(t, "push", push[t].m, "-", 0, 0, 0, "-", FALSE)
  \/ \E v \in DynVars, x \in Vals : SetBang(t, v, x) /\ E(t, "set", NoMap, v, x, 0, 0, "-", stack[t][v] # << >>)
  \/ Pop(t) /\ E(t, "pop", NoMap, "-", 0, 1, 0, "-", TRUE)
  \/ \E n \in 1..MaxDepth : Throw(t, n) /\ E(t, "throw", NoMap, "-", 0, n, 0, "-", TRUE)
  \/ \E c \in Threads, kind \in SpawnKinds : Spawn(t, c, kind) /\ E(t, "spawn", NoMap, "-", 0, 0, c, kind, TRUE)
  \/ Finish(t) /\ E(t, "finish", NoMap, "-", 0, 0, 0, "-", TRUE)
GNext == \E t \in Threads : (\A u \in Threads \ {t} : ~push[u].active) /\ GStep(t)
GSpec == GInit /\ [][GNext]_gvars

Bound_ == Len(hist) <= D
AtStep == \A t \in Threads : ~push[t].active
Emit == (Len(hist) = D /\ AtStep /\ last.act \notin {"begin", "pushone", "pushfail"}) => PrintT(<<"BEH", ToJson(hist)>>)
=========================================================================================
