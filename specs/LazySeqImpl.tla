------------------------------- MODULE LazySeqImpl -------------------------------
(* C06 -- the lazy sequence as built in rust/src/basilisp_native/seq.rs (LazySeq::seq and *)
(* LazySeq::_compute_seq), one action per statement that matters:                        *)
(*                                                                                      *)
(*   seq():           lock1   let mutex = self.lock.lock()          (re-entrant mutex)    *)
(*                    chk1    if Realized(seq) -> return seq                             *)
(*   _compute_seq():  lock2   let mutex = self.lock.lock()          (second guard)        *)
(*                    chk2    Computing -> return None; Computed/Realized -> return obj   *)
(*                    setcomputing   *state = Computing (the generator is taken out)       *)
(*                    gen     gen.call0(py)  -- the producer: Python code, may block,      *)
(*                            raise, or call seq() on the same cell again (EnterGen ..     *)
(*                            pstart .. pend .. LeaveGen: Python level in between)         *)
(*                    setcomputed    *state = Computed(obj); inner guard dropped           *)
(*                    err1/err2      `?`: the error leaves _compute_seq, then seq()        *)
(*   seq():           chk3    Computed(obj) -> realize;  anything else -> return None      *)
(*                    realize *state = Realized(to_seq(obj)); outer guard dropped          *)
(*                                                                                      *)
(* The interpreter lock: `gil` is the thread that is inside native code (from taking the   *)
(* first guard to the next point where Python code runs) or 0 when whoever runs is at      *)
(* Python level and can be pre-empted; a thread moves only when gil is 0 or itself.        *)
(*                                                                                      *)
(* Named deviations (TRUE = what the pinned tree does):                                   *)
(*   LockUnderGIL        lock() blocks while the thread keeps the interpreter lock: when   *)
(*                       the mutex is held by a thread that is at Python level (inside its  *)
(*                       producer) nobody can ever run again.  FALSE = the repair: a        *)
(*                       try_lock loop that gives the interpreter lock up between attempts  *)
(*                       (modelled as waiting without holding it).                         *)
(*   ErrLeavesComputing  a producer that raises leaves the state Computing: every later     *)
(*                       seq() returns None -- the sequence is silently empty.  FALSE = the *)
(*                       repair: the state is set back to Initialized(gen).                 *)
(* Not modelled: the loop in seq() that unwraps lazy sequences returned by the producer     *)
(* and the generality of to_seq(obj) (the producers here return nil or a cons cell).        *)
EXTENDS Integers, Sequences, FiniteSets, TLC, LazySeqVals

CONSTANTS LockUnderGIL, ErrLeavesComputing

VARIABLES gil,    \* 0 or the thread inside native code / blocked in it
          mown,   \* mown[c]: owner of the re-entrant mutex of cell c (0: free)
          mcnt,   \* mcnt[c]: guards the owner holds
          lst,    \* lst[c] \in {"Init", "Computing", "Computed", "Realized"}  (LazySeqState)
          fr      \* fr[t]: frames, innermost last: [k = "call": op, c, cur, pc, res] / [k = "prod": c, pc]
ivars == <<gil, mown, mcnt, lst, fr>>

ICells == 1..N
IDepth(t) == Len(fr[t])
ITop(t) == fr[t][Len(fr[t])]
ISetTop(t, f) == [fr EXCEPT ![t] = [@ EXCEPT ![Len(@)] = f]]
IPush(t, f) == [fr EXCEPT ![t] = Append(@, f)]
IPop(t) == [fr EXCEPT ![t] = SubSeq(@, 1, Len(@) - 1)]
ICallF(op, c) == [k |-> "call", op |-> op, c |-> c, cur |-> c, pc |-> "lock1", res |-> NilV]
IProdF(c) == [k |-> "prod", op |-> "-", c |-> c, cur |-> 0, pc |-> "entered", res |-> NilV]
GilOK(t) == gil \in {0, t}
AtPc(t, pc) == IDepth(t) > 0 /\ ITop(t).k = "call" /\ ITop(t).pc = pc
InBody(t) == IDepth(t) > 0 /\ ITop(t).k = "prod" /\ ITop(t).pc \in {"body", "awake"}
Content(k) == IF k = N THEN "nil" ELSE "cons"     \* what to_seq(obj) of cell k is

IInit == /\ gil = 0 /\ mown = [c \in ICells |-> 0] /\ mcnt = [c \in ICells |-> 0]
         /\ lst = [c \in ICells |-> "Init"] /\ fr = [t \in Threads |-> <<>>]

(* dropping one guard *)
Unlocked(k) == /\ mcnt' = [mcnt EXCEPT ![k] = @ - 1]
               /\ mown' = [mown EXCEPT ![k] = IF mcnt[k] = 1 THEN 0 ELSE @]
(* seq(k) has produced v ("nil" / "cons") for the operation in progress: either the operation goes *)
(* on to the next cell (Python level in between) or it has its result                              *)
Got(t, v) == LET f == ITop(t)
                 w == Walk(f.op, f.c, f.cur, v = "nil") IN
               /\ fr' = ISetTop(t, IF w.cur # 0 THEN [f EXCEPT !.cur = w.cur, !.pc = "lock1"]
                                               ELSE [f EXCEPT !.cur = 0, !.pc = "ret", !.res = w.res])
               /\ gil' = 0

(* ---- steps seen from outside (events of a recorded execution) ------------------------------ *)
ICall(t, op, c) == /\ GilOK(t) /\ c \in ICells /\ op \in Ops
                   /\ (IF IDepth(t) = 0 THEN TRUE ELSE InBody(t))
                   /\ fr' = IPush(t, ICallF(op, c))
                   /\ UNCHANGED <<gil, mown, mcnt, lst>>

(* the producer (Python code) logs that it has been entered / that it is about to return or raise; the call into  *)
(* it and the return from it are silent steps of the mechanism (IEnterGen, ILeaveGen below): between them the     *)
(* thread is at Python level and may lose the interpreter lock at any moment                                      *)
IPStart(t, k) == /\ GilOK(t) /\ IDepth(t) > 0 /\ ITop(t).k = "prod" /\ ITop(t).pc = "entered" /\ ITop(t).c = k
                 /\ fr' = ISetTop(t, [ITop(t) EXCEPT !.pc = "body"])
                 /\ UNCHANGED <<gil, mown, mcnt, lst>>

(* the producer blocks outside the interpreter lock (Event.wait) until the harness lets it go on; *)
(* coming back needs the interpreter lock                                                         *)
IPark(t) == /\ GilOK(t) /\ IDepth(t) > 0 /\ ITop(t).k = "prod" /\ ITop(t).pc = "body"
            /\ fr' = ISetTop(t, [ITop(t) EXCEPT !.pc = "parked"])
            /\ UNCHANGED <<gil, mown, mcnt, lst>>
IResume(t) == /\ GilOK(t) /\ IDepth(t) > 0 /\ ITop(t).k = "prod" /\ ITop(t).pc = "parked"
              /\ fr' = ISetTop(t, [ITop(t) EXCEPT !.pc = "awake"])
              /\ UNCHANGED <<gil, mown, mcnt, lst>>

IPEnd(t, k, ok) == /\ GilOK(t) /\ InBody(t) /\ ITop(t).c = k
                   /\ fr' = ISetTop(t, [ITop(t) EXCEPT !.pc = IF ok THEN "endok" ELSE "enderr"])
                   /\ UNCHANGED <<gil, mown, mcnt, lst>>

IRet(t, res) == /\ GilOK(t) /\ AtPc(t, "ret") /\ ITop(t).res = res
                /\ fr' = IPop(t)
                /\ UNCHANGED <<gil, mown, mcnt, lst>>

(* ---- internal steps ------------------------------------------------------------------------ *)
ILock1(t) == /\ GilOK(t) /\ AtPc(t, "lock1")
             /\ LET k == ITop(t).cur IN
                  IF mown[k] \in {0, t}
                    THEN /\ mown' = [mown EXCEPT ![k] = t] /\ mcnt' = [mcnt EXCEPT ![k] = @ + 1]
                         /\ fr' = ISetTop(t, [ITop(t) EXCEPT !.pc = "chk1"]) /\ gil' = t
                    ELSE \* Dev_LockUnderGIL: blocked inside lock() with the interpreter lock held
                         /\ LockUnderGIL
                         /\ fr' = ISetTop(t, [ITop(t) EXCEPT !.pc = "blocked"]) /\ gil' = t
                         /\ UNCHANGED <<mown, mcnt>>
             /\ UNCHANGED lst
IBlockedAcquire(t) == /\ GilOK(t) /\ AtPc(t, "blocked") /\ mown[ITop(t).cur] = 0
                      /\ mown' = [mown EXCEPT ![ITop(t).cur] = t] /\ mcnt' = [mcnt EXCEPT ![ITop(t).cur] = 1]
                      /\ fr' = ISetTop(t, [ITop(t) EXCEPT !.pc = "chk1"])
                      /\ UNCHANGED <<gil, lst>>
IChk1(t) == /\ GilOK(t) /\ AtPc(t, "chk1")
            /\ LET k == ITop(t).cur IN
                 IF lst[k] = "Realized" THEN Unlocked(k) /\ Got(t, Content(k))
                 ELSE fr' = ISetTop(t, [ITop(t) EXCEPT !.pc = "lock2"]) /\ UNCHANGED <<gil, mown, mcnt>>
            /\ UNCHANGED lst
ILock2(t) == /\ GilOK(t) /\ AtPc(t, "lock2")
             /\ mcnt' = [mcnt EXCEPT ![ITop(t).cur] = @ + 1]
             /\ fr' = ISetTop(t, [ITop(t) EXCEPT !.pc = "chk2"])
             /\ UNCHANGED <<gil, mown, lst>>
IChk2(t) == /\ GilOK(t) /\ AtPc(t, "chk2")
            /\ LET k == ITop(t).cur IN
                 IF lst[k] = "Init" THEN fr' = ISetTop(t, [ITop(t) EXCEPT !.pc = "setcomputing"]) /\ UNCHANGED <<mown, mcnt>>
                 ELSE Unlocked(k) /\ fr' = ISetTop(t, [ITop(t) EXCEPT !.pc = "chk3"])
            /\ UNCHANGED <<gil, lst>>
ISetComputing(t) == /\ GilOK(t) /\ AtPc(t, "setcomputing")
                    /\ lst' = [lst EXCEPT ![ITop(t).cur] = "Computing"]
                    /\ fr' = ISetTop(t, [ITop(t) EXCEPT !.pc = "gen"])
                    /\ UNCHANGED <<gil, mown, mcnt>>
(* gen.call0(py): Python code starts to run -- from here on the thread can be pre-empted *)
IEnterGen(t) == /\ GilOK(t) /\ AtPc(t, "gen")
                /\ fr' = [fr EXCEPT ![t] = Append([@ EXCEPT ![Len(@)] = [@ EXCEPT !.pc = "ingen"]], IProdF(ITop(t).cur))]
                /\ gil' = 0
                /\ UNCHANGED <<mown, mcnt, lst>>
(* ... and comes back into native code with a value or an error *)
ILeaveGen(t) == /\ GilOK(t) /\ IDepth(t) > 1 /\ ITop(t).k = "prod" /\ ITop(t).pc \in {"endok", "enderr"}
                /\ fr' = [fr EXCEPT ![t] = LET d == Len(@) IN
                             Append(SubSeq(@, 1, d - 2), [@[d - 1] EXCEPT !.pc = IF ITop(t).pc = "endok" THEN "setcomputed" ELSE "err1"])]
                /\ gil' = t
                /\ UNCHANGED <<mown, mcnt, lst>>
ISetComputed(t) == /\ GilOK(t) /\ AtPc(t, "setcomputed")
                   /\ lst' = [lst EXCEPT ![ITop(t).cur] = "Computed"]
                   /\ Unlocked(ITop(t).cur)
                   /\ fr' = ISetTop(t, [ITop(t) EXCEPT !.pc = "chk3"])
                   /\ UNCHANGED gil
IErr1(t) == /\ GilOK(t) /\ AtPc(t, "err1")
            \* Dev_ErrLeavesComputing: the state is not restored
            /\ lst' = IF ErrLeavesComputing THEN lst ELSE [lst EXCEPT ![ITop(t).cur] = "Init"]
            /\ Unlocked(ITop(t).cur)
            /\ fr' = ISetTop(t, [ITop(t) EXCEPT !.pc = "err2"])
            /\ UNCHANGED gil
IErr2(t) == /\ GilOK(t) /\ AtPc(t, "err2")
            /\ Unlocked(ITop(t).cur)
            /\ fr' = ISetTop(t, [ITop(t) EXCEPT !.cur = 0, !.pc = "ret", !.res = ExcV])
            /\ gil' = 0
            /\ UNCHANGED lst
IChk3(t) == /\ GilOK(t) /\ AtPc(t, "chk3")
            /\ LET k == ITop(t).cur IN
                 IF lst[k] = "Computed" THEN fr' = ISetTop(t, [ITop(t) EXCEPT !.pc = "realize"]) /\ UNCHANGED <<gil, mown, mcnt>>
                 ELSE Unlocked(k) /\ Got(t, "nil")       \* `_ => Ok(py.None())`
            /\ UNCHANGED lst
IRealize(t) == /\ GilOK(t) /\ AtPc(t, "realize")
               /\ lst' = [lst EXCEPT ![ITop(t).cur] = "Realized"]
               /\ Unlocked(ITop(t).cur)
               /\ Got(t, Content(ITop(t).cur))

(* the step in which seq(cur) hands its value to the operation (where the required specification observes the cell) *)
Observes(t) == \/ (AtPc(t, "chk1") /\ lst[ITop(t).cur] = "Realized")
               \/ (AtPc(t, "chk3") /\ lst[ITop(t).cur] # "Computed")
               \/ AtPc(t, "realize")
ObservedValue(t) == IF AtPc(t, "chk3") THEN "nil" ELSE Content(ITop(t).cur)

Internal(t) == ILock1(t) \/ IBlockedAcquire(t) \/ IChk1(t) \/ ILock2(t) \/ IChk2(t) \/ ISetComputing(t)
               \/ IEnterGen(t) \/ ILeaveGen(t) \/ ISetComputed(t) \/ IErr1(t) \/ IErr2(t) \/ IChk3(t) \/ IRealize(t)

(* a thread that has something to do but cannot move, and will not unless somebody else does *)
Waiting(t) == IDepth(t) > 0 /\ (~GilOK(t) \/ (AtPc(t, "lock1") /\ mown[ITop(t).cur] \notin {0, t} /\ ~LockUnderGIL)
                                 \/ (AtPc(t, "blocked") /\ mown[ITop(t).cur] # 0))

(* ---- mechanism invariants -------------------------------------------------------------------- *)
MutexSane == \A c \in ICells : (mown[c] = 0 <=> mcnt[c] = 0) /\ mcnt[c] >= 0
(* the state is only touched under the cell's mutex *)
UnderMutex == \A t \in Threads : (IDepth(t) > 0 /\ ITop(t).k = "call"
                                  /\ ITop(t).pc \in {"chk1", "lock2", "chk2", "setcomputing", "gen", "setcomputed", "err1", "chk3", "realize"})
                                 => mown[ITop(t).cur] = t
===================================================================================
