CONSTANTS Threads <- T1  DynVars <- Dyn  NonDyn = "n"  Vals <- MVals  Bad <- MBad  Maps <- AllMaps  Orders <- RotOrders
          SpawnKinds <- AllKinds  MaxDepth = 3  NoRollback = FALSE
SPECIFICATION Spec
INVARIANT RestoredOnExit
INVARIANT WellFormed
INVARIANT ImplAgrees
PROPERTY Isolation
PROPERTY Conveyance
PROPERTY SetInnermost
CHECK_DEADLOCK FALSE
