------------------------------------ MODULE Opt ------------------------------------
(* C15 -- the Python-AST optimization pass may change generated code ONLY by:           *)
(*   DropBare        dropping a statement that is a bare constant or name               *)
(*   DropUnreachable dropping statements that follow return / raise / break / continue  *)
(*   DropEmptyIf     dropping an `if` whose branches both vanish -- allowed only when   *)
(*                   its test is pure (the evaluation that computed the test value is a *)
(*                   separate, kept statement)                                          *)
(*   NegateIf        `if t: <vanishes> else: B`  ==>  `if not t: B'`                    *)
(*   DedupGlobal     removing names from a `global` declaration that an earlier         *)
(*                   declaration of the same function already lists                     *)
(*   NativeOp        replacing operator.<f>(x, y) by the native operator with the same  *)
(*                   operands in the same order and the same meaning                    *)
(* The relation BlockOK(before, after) below holds exactly when `after` can be obtained *)
(* from `before` by these rewrites.  Python ASTs arrive as JSON trees (see               *)
(* harness/pyast_enc.py); sub-expressions the pass cannot touch are abstracted to       *)
(* [k |-> "x", h |-> hash].                                                             *)
(*                                                                                    *)
(* Named deviations (the pinned code performs them; each is a constant switch here):    *)
(*   DevIsBecomesEq        operator.is_(x, c) ==> x == c for a non-singleton constant c *)
(*   DevContainsSwaps      operator.contains(a, b) ==> b in a with impure operands      *)
(*                         (evaluates b before a)                                       *)
(*   DevDelitemAsExpr      operator.delitem(a, i) ==> a `del` statement placed where an *)
(*                         expression is required                                       *)
EXTENDS Integers, Sequences, FiniteSets, TLC

CONSTANTS DevIsBecomesEq, DevContainsSwaps, DevDelitemAsExpr

BinTable == [add |-> "Add", and_ |-> "BitAnd", floordiv |-> "FloorDiv", lshift |-> "LShift", mod |-> "Mod",
             mul |-> "Mult", matmul |-> "MatMult", or_ |-> "BitOr", pow |-> "Pow", rshift |-> "RShift",
             sub |-> "Sub", truediv |-> "Div", xor |-> "BitXor"]
UnTable == [not_ |-> "Not", inv |-> "Invert", invert |-> "Invert"]
CmpTable == [lt |-> "Lt", le |-> "LtE", eq |-> "Eq", ne |-> "NotEq", gt |-> "Gt", ge |-> "GtE",
             is_ |-> "Is", is_not |-> "IsNot"]
EqOf == [is_ |-> "Eq", is_not |-> "NotEq"]

SeqToSet(s) == {s[i] : i \in 1..Len(s)}

(* an expression whose evaluation has no effect and cannot fail: names, constants, identity tests, and/or/not of those *)
RECURSIVE Pure(_)
Pure(e) == CASE e.k \in {"const", "name"} -> TRUE
             [] e.k = "compare" -> e.op \in {"Is", "IsNot"} /\ Pure(e.l) /\ Pure(e.r)
             [] e.k = "unary" -> e.op = "Not" /\ Pure(e.e)
             [] e.k = "gen" -> e.cls = "BoolOp" /\ \A i \in 1..Len(e.ch) : Pure(e.ch[i])
             [] e.k = "list" -> \A i \in 1..Len(e.ch) : Pure(e.ch[i])
             [] OTHER -> FALSE
NonSingletonConst(e) == e.k = "const" /\ ~e.single

RECURSIVE ExprOK(_, _), ExprsOK(_, _)
ExprsOK(bs, as) == Len(bs) = Len(as) /\ \A i \in 1..Len(bs) : ExprOK(bs[i], as[i])

(* NativeOp: same operands, same order, same meaning *)
NativeOK(b, a) ==
  LET n == Len(b.args) IN
  \/ /\ b.fn \in DOMAIN BinTable /\ n = 2 /\ a.k = "binop" /\ a.op = BinTable[b.fn]
     /\ ExprOK(b.args[1], a.l) /\ ExprOK(b.args[2], a.r)
  \/ /\ b.fn \in DOMAIN UnTable /\ n = 1 /\ a.k = "unary" /\ a.op = UnTable[b.fn] /\ ExprOK(b.args[1], a.e)
  \/ /\ b.fn \in DOMAIN CmpTable /\ n = 2 /\ a.k = "compare" /\ a.op = CmpTable[b.fn]
     /\ ExprOK(b.args[1], a.l) /\ ExprOK(b.args[2], a.r)
  \/ /\ b.fn = "getitem" /\ n = 2 /\ a.k = "subscript" /\ ExprOK(b.args[1], a.v) /\ ExprOK(b.args[2], a.i)
  \/ \* `b in a` evaluates b first: the same order as contains(a, b) only if the order cannot be observed
     /\ b.fn = "contains" /\ n = 2 /\ a.k = "compare" /\ a.op = "In"
     /\ ExprOK(b.args[2], a.l) /\ ExprOK(b.args[1], a.r)
     /\ (DevContainsSwaps \/ (Pure(b.args[1]) /\ Pure(b.args[2])))
  \/ \* deviation: identity test turned into an equality test
     /\ DevIsBecomesEq /\ b.fn \in DOMAIN EqOf /\ n = 2 /\ a.k = "compare" /\ a.op = EqOf[b.fn]
     /\ (NonSingletonConst(b.args[1]) \/ NonSingletonConst(b.args[2]))
     /\ ExprOK(b.args[1], a.l) /\ ExprOK(b.args[2], a.r)
  \/ \* deviation: a statement where an expression is required
     /\ DevDelitemAsExpr /\ b.fn = "delitem" /\ n = 2 /\ a.k = "delete" /\ Len(a.targets) = 1
     /\ a.targets[1].k = "subscript" /\ ExprOK(b.args[1], a.targets[1].v) /\ ExprOK(b.args[2], a.targets[1].i)

ExprOK(b, a) ==
  \/ a = b
  \/ b.k = "opcall" /\ NativeOK(b, a)
  \/ /\ b.k = a.k
     /\ CASE b.k = "opcall" -> b.fn = a.fn /\ ExprsOK(b.args, a.args)
          [] b.k = "binop" -> b.op = a.op /\ ExprOK(b.l, a.l) /\ ExprOK(b.r, a.r)
          [] b.k = "unary" -> b.op = a.op /\ ExprOK(b.e, a.e)
          [] b.k = "compare" -> b.op = a.op /\ ExprOK(b.l, a.l) /\ ExprOK(b.r, a.r)
          [] b.k = "subscript" -> ExprOK(b.v, a.v) /\ ExprOK(b.i, a.i)
          [] b.k = "gen" -> b.cls = a.cls /\ b.lit = a.lit /\ ExprsOK(b.ch, a.ch)
          [] b.k = "list" -> ExprsOK(b.ch, a.ch)
          [] OTHER -> FALSE            \* const, name, x: only identical

IsBare(s) == s.s = "expr" /\ s.e.k \in {"const", "name"}
IsTerminator(s) == s.s \in {"return", "raise", "break", "continue"}

RECURSIVE BlockOK(_, _, _), StmtOK(_, _), Vanishes(_), HandlersOK(_, _), BlocksOK(_, _)

(* a block that the pass may reduce to nothing (or to a lone `pass` where Python needs a statement) *)
Vanishes(b) == BlockOK(b, <<>>, FALSE)
BodyOK(b, a) == BlockOK(b, a, FALSE) \/ (a = <<[s |-> "pass"]>> /\ Vanishes(b))

GlobalOK(b, a) == /\ SeqToSet(a.names) \subseteq SeqToSet(b.names)
                  /\ (SeqToSet(b.names) \ SeqToSet(a.names)) \subseteq SeqToSet(b.prior)

HandlersOK(bs, as) == Len(bs) = Len(as) /\ \A i \in 1..Len(bs) :
                         bs[i].ty = as[i].ty /\ bs[i].n = as[i].n /\ BodyOK(bs[i].body, as[i].body)
BlocksOK(bs, as) == Len(bs) = Len(as) /\ \A i \in 1..Len(bs) : BodyOK(bs[i], as[i])

StmtOK(b, a) ==
  \/ a = b
  \/ \* NegateIf
     /\ b.s = "if" /\ a.s = "if" /\ Vanishes(b.a) /\ a.b = <<>>
     /\ a.t.k = "unary" /\ a.t.op = "Not" /\ ExprOK(b.t, a.t.e)
     /\ BlockOK(b.b, a.a, FALSE) /\ a.a # <<>>
  \/ /\ b.s = a.s
     /\ CASE b.s = "expr" -> \/ ExprOK(b.e, a.e)
                              \/ \* delitem in statement position is the `del` statement: same operands, same meaning
                                 /\ b.e.k = "opcall" /\ b.e.fn = "delitem" /\ Len(b.e.args) = 2 /\ a.e.k = "delete"
                                 /\ Len(a.e.targets) = 1 /\ a.e.targets[1].k = "subscript"
                                 /\ ExprOK(b.e.args[1], a.e.targets[1].v) /\ ExprOK(b.e.args[2], a.e.targets[1].i)
          [] b.s = "assign" -> ExprsOK(b.tg, a.tg) /\ ExprOK(b.e, a.e)
          [] b.s = "return" -> ExprOK(b.e, a.e)
          [] b.s = "raise" -> ExprOK(b.e, a.e) /\ ExprOK(b.cause, a.cause)
          [] b.s = "if" -> ExprOK(b.t, a.t) /\ a.a # <<>> /\ BlockOK(b.a, a.a, FALSE) /\ BlockOK(b.b, a.b, FALSE)
          [] b.s = "while" -> ExprOK(b.t, a.t) /\ BodyOK(b.body, a.body) /\ BlockOK(b.orelse, a.orelse, FALSE)
          [] b.s = "try" -> /\ BodyOK(b.body, a.body) /\ HandlersOK(b.hs, a.hs)
                            /\ BlockOK(b.orelse, a.orelse, FALSE)
                            /\ (BlockOK(b.fin, a.fin, FALSE)
                                \/ (a.fin = <<[s |-> "pass"]>> /\ Vanishes(b.fin) /\ b.hs = <<>>))
          [] b.s \in {"def", "class"} -> b.n = a.n /\ b.sig = a.sig /\ BodyOK(b.body, a.body)
          [] b.s = "global" -> GlobalOK(b, a)
          [] b.s = "delete" -> ExprsOK(b.targets, a.targets)
          [] b.s = "gen" -> b.cls = a.cls /\ b.lit = a.lit /\ ExprsOK(b.ch, a.ch) /\ BlocksOK(b.blocks, a.blocks)
          [] OTHER -> FALSE            \* break, continue, pass: only identical

(* alignment of two statement lists; term = a terminator has been passed at this level *)
BlockOK(b, a, term) ==
  IF b = <<>> THEN a = <<>>
  ELSE LET h == Head(b) IN
    \/ (IsBare(h) /\ BlockOK(Tail(b), a, term))                                       \* DropBare
    \/ (term /\ BlockOK(Tail(b), a, term))                                            \* DropUnreachable
    \/ (h.s = "if" /\ Pure(h.t) /\ Vanishes(h.a) /\ Vanishes(h.b) /\ BlockOK(Tail(b), a, term))    \* DropEmptyIf
    \/ (h.s = "global" /\ SeqToSet(h.names) \subseteq SeqToSet(h.prior) /\ BlockOK(Tail(b), a, term)) \* DedupGlobal
    \/ (a # <<>> /\ StmtOK(h, Head(a)) /\ BlockOK(Tail(b), Tail(a), IsTerminator(h)))       \* Keep

Conforms(before, after) == BlockOK(before, after, FALSE)
=====================================================================================
