--------------------------------- MODULE Bindings_Trace ---------------------------------
(* C11 code -> spec (second opinion on executions that disagree with Bindings.tla): is the recorded  *)
(* execution -- with the iteration order each real map really had -- exactly what the mechanism as    *)
(* built (BindingsOps) does with the named deviation?  IOEnv.DEVS = "NoRollbackOnPartialPush" |        *)
(* "none" (the mechanism with rollback).  Deterministic: every step is applied and everything that     *)
(* was observed (outcome of the call, every Var in every live thread) must agree.                      *)
EXTENDS Integers, Sequences, FiniteSets, TLC, Json, IOUtils, BindingsOps

Traces == JsonDeserialize(IOEnv.TRACE_FILE)
NoRollback == IOEnv.DEVS = "NoRollbackOnPartialPush"
Threads == 1..3
DynVars == {"a", "b", "c"}
RootVal == 0
VARIABLES tid, l, its, onpool, ipool
vars == <<tid, l, its, onpool, ipool>>
NoTs == [stack |-> [v \in DynVars |-> << >>], frames |-> << >>]

Tr == Traces[tid].steps
Init == /\ tid \in 1..Len(Traces) /\ l = 1 /\ its = [t \in Threads |-> NoTs]
        /\ onpool = [t \in Threads |-> FALSE] /\ ipool = {}
S == Tr[l]

(* the state after the step, and whether the call itself succeeded; base: what the carrier thread of a new child holds *)
After(base) ==
  CASE S.act = "push" -> LET r == PushCall(its[S.t], S.pairs, NoRollback) IN [its |-> [its EXCEPT ![S.t] = r.ts], ok |-> r.ok]
    [] S.act = "set" -> LET r == SetTop(its[S.t], S.v, S.x) IN [its |-> [its EXCEPT ![S.t] = r.ts], ok |-> r.ok]
    [] S.act = "pop" -> [its |-> [its EXCEPT ![S.t] = PopFrame(@)], ok |-> TRUE]
    [] S.act = "throw" -> [its |-> [its EXCEPT ![S.t] = OPopFrames(@, S.n)], ok |-> TRUE]
    [] S.act = "spawn" -> [its |-> [its EXCEPT ![S.c] = ChildOn(base, its[S.t], S.kind # "raw", RootVal)], ok |-> TRUE]
    [] S.act = "finish" -> [its |-> [its EXCEPT ![S.t] = NoTs], ok |-> TRUE]
Agrees(a) == /\ a.ok = S.ok
             /\ \A i \in 1..Len(S.obs) : \A v \in DynVars : OVisible(a.its[S.obs[i].u], v, RootVal) = S.obs[i].vals[v]
Bases == IF S.act = "spawn" /\ OnPool(S.kind) THEN ipool \cup {NoTs} ELSE {NoTs}
Next == /\ l <= Len(Tr)
        /\ \E base \in Bases : Agrees(After(base)) /\ its' = After(base).its
        /\ onpool' = IF S.act = "spawn" THEN [onpool EXCEPT ![S.c] = OnPool(S.kind)]
                      ELSE IF S.act = "finish" THEN [onpool EXCEPT ![S.t] = FALSE] ELSE onpool
        /\ ipool' = IF S.act = "finish" /\ onpool[S.t] THEN (ipool \cup {PopFrame(its[S.t])}) \ {NoTs} ELSE ipool
        /\ l' = l + 1 /\ UNCHANGED tid
Spec == Init /\ [][Next]_vars
Accept == (l = Len(Tr) + 1) => PrintT(<<"ACC", tid>>)
Prefix == PrintT(<<"PFX", tid * 10000 + l>>)
=========================================================================================
