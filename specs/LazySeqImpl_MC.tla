------------------------------ MODULE LazySeqImpl_MC ------------------------------
(* Design check of the mechanism of seq.rs (LazySeqImpl.tla) against the required         *)
(* behaviour (LazySeq.tla).  The two run in lock step: wherever the mechanism does          *)
(* something the required specification has an action for (a call, a producer starting or   *)
(* ending, a cell being looked at, a return) that action is taken too -- if the required     *)
(* specification does not allow it in its current state, `bad` records which clause broke    *)
(* (the monitor is total, so that a defect of the mechanism shows up as a violated          *)
(* invariant Simulates, not as a disabled step).  Consumer programs and producer plans come   *)
(* from LazySeqDrv.  Termination under weak fairness = no deadlock, no lost wake-up.          *)
(*                                                                                        *)
(* Record = TRUE additionally keeps the sequence of harness-level decisions (which thread     *)
(* starts its next call, which parked producer is resumed); with Steer = TRUE a decision is   *)
(* only taken when every other thread is at a stable point (idle, parked, waiting for a       *)
(* mutex), which is how the conformance driver replays a schedule with real threads.          *)
EXTENDS LazySeqImpl, LazySeqDrv, Json

CONSTANTS FailPolicy, Record, Steer

VARIABLES st, runner, okruns, dem, stack,    \* LazySeq.tla
          bad,                               \* "none" or the clause of LazySeq.tla the mechanism broke
          hist                               \* decisions (Record = TRUE)
INSTANCE LazySeq
av == <<st, runner, okruns, dem, stack>>
vars == <<gil, mown, mcnt, lst, fr, prog0, prog, hnd, att, pp, plan, st, runner, okruns, dem, stack, bad, hist>>

Init == IInit /\ DInit /\ LInit /\ bad = "none" /\ hist = <<>>

Mon(ok, name) == bad' = IF ok \/ bad # "none" THEN bad ELSE name
Note(a, t) == hist' = IF Record THEN Append(hist, [a |-> a, t |-> t]) ELSE hist
NoNote == hist' = hist

Stable(u) == \/ IDepth(u) = 0
             \/ (IDepth(u) > 0 /\ ITop(u).k = "prod" /\ ITop(u).pc = "parked")
             \/ Waiting(u)
Quiet(t) == Steer => \A u \in Threads \ {t} : Stable(u)

Call(t) == \E op \in Ops, c \in ICells :
             /\ IDepth(t) = 0 /\ Quiet(t)
             /\ DCall(t, op, c) /\ ICall(t, op, c)
             /\ IF CallOK(t, op, c) THEN LCall(t, op, c) ELSE UNCHANGED av
             /\ Mon(CallOK(t, op, c), "Call") /\ Note("go", t)

Start(t) == \E k \in ICells :
              /\ DStart(t, k) /\ IPStart(t, k)
              /\ IF StartOK(t, k) THEN LStart(t, k) ELSE UNCHANGED av
              /\ Mon(StartOK(t, k), "RunsAtMostOnce/DemandBound: producer started though the cell is not unrealized-and-demanded")
              /\ NoNote

Park(t) == IDepth(t) > 0 /\ ITop(t).k = "prod" /\ DPark(t, ITop(t).c) /\ IPark(t) /\ UNCHANGED <<av, bad>> /\ NoNote
Resume(t) == Quiet(t) /\ DResume(t) /\ IResume(t) /\ UNCHANGED <<av, bad>> /\ Note("res", t)

Nest(t) == /\ IDepth(t) > 0 /\ ITop(t).k = "prod"
           /\ \E op \in Ops : LET c == ITop(t).c IN
                /\ DNest(t, c, op) /\ ICall(t, op, c)
                /\ IF CallOK(t, op, c) THEN LCall(t, op, c) ELSE UNCHANGED av
                /\ Mon(CallOK(t, op, c), "Call")
           /\ NoNote

End(t) == /\ IDepth(t) > 0 /\ ITop(t).k = "prod"
          /\ \E ok \in BOOLEAN : LET k == ITop(t).c IN
               /\ DEnd(t, k, ok) /\ IPEnd(t, k, ok)
               /\ IF EndOK(t, k) THEN LEnd(t, k, ok) ELSE UNCHANGED av
               /\ Mon(EndOK(t, k), "End")
          /\ NoNote

(* an internal step of the mechanism; the one that hands the value of a cell to the operation is *)
(* where the required specification looks at the cell                                            *)
Inner(t) == /\ Internal(t)
            /\ IF Observes(t)
                 THEN LET okk == ObserveOK(t) /\ ITop(t).cur = Top(t).cur
                                 /\ ((ObservedValue(t) = "nil") <=> (Top(t).cur = N \/ InProducerOf(t, Top(t).cur))) IN
                        /\ IF okk THEN LObserve(t) ELSE UNCHANGED av
                        /\ Mon(okk, "ThrowKeepsCell/Agreement: a cell that is not done is seen, or seen with other contents")
                 ELSE UNCHANGED <<av, bad>>
            /\ UNCHANGED dvars /\ NoNote

Ret(t) == /\ AtPc(t, "ret")
          /\ LET f == ITop(t) IN
               /\ IRet(t, f.res)
               /\ IF RetOK(t, f.res) THEN LRet(t, f.res) ELSE UNCHANGED av
               /\ Mon(RetOK(t, f.res), "Agreement: result differs from the required one")
               /\ IF IDepth(t) = 1 THEN DRetOuter(t, f.op, f.c, f.res) ELSE DNestRet(t)
          /\ NoNote

Step(t) == Call(t) \/ Start(t) \/ Park(t) \/ Resume(t) \/ Nest(t) \/ End(t) \/ Inner(t) \/ Ret(t)
AllDone == \A t \in Threads : IDepth(t) = 0 /\ DDone(t)
Next == (\E t \in Threads : Step(t)) \/ (AllDone /\ UNCHANGED vars)
Spec == Init /\ [][Next]_vars /\ \A t \in Threads : WF_vars(Step(t))

(* ---- what TLC checks ------------------------------------------------------------------------- *)
Simulates == bad = "none"
(* same frames on both levels, except that the mechanism has the producer frame from the call into the generator *)
(* to the return from it, the required specification from the logged start to the logged end                     *)
SameShape == \A t \in Threads :
               Len(stack[t]) = IDepth(t) - (IF IDepth(t) > 0 /\ ITop(t).k = "prod" /\ ITop(t).pc \in {"entered", "endok", "enderr"}
                                              THEN 1 ELSE 0)
Termination == <>[]AllDone

(* behaviours for the conformance driver: one line per distinct (programs, plans, decisions) *)
Emit == AllDone => PrintT(<<"BEH", ToJson([progs |-> prog0, plan |-> plan, hist |-> hist])>>)

===================================================================================
