CONSTANTS MaxLen = 0  SubLen = 0  NoNsFirst = FALSE
INIT InitT
NEXT NextT
INVARIANT Antisymmetric
INVARIANT Transitive
INVARIANT ZeroIffEqual
INVARIANT EqTransitive
CONSTRAINT EmitT
CHECK_DEADLOCK FALSE
