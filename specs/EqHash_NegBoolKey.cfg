CONSTANTS U <- UQ  DevBoolSeq = FALSE  DevBoolKey = TRUE  DevHashByRep = FALSE  KeySeq <- KeysQ  MaxDepth = 0
INIT InitTI
NEXT NextTI2
INVARIANT Reflexive
INVARIANT NaNIrreflexive
INVARIANT Symmetric
INVARIANT Transitive
INVARIANT SeqByElements
INVARIANT BoolNeverNum
INVARIANT KindsApart
INVARIANT Refines
INVARIANT HashRespects
CHECK_DEADLOCK FALSE
