\* negative job: deviation StaleRefer switched on -- the refinement must FAIL (NAMES_CLASS=v; shortest witness: 6 steps)
CONSTANTS
  NameSeq <- ClassSeq
  Munge <- MungeAll
  Ambient <- AmbientCls
  Flags <- FlagsPriv
  Toggle = TRUE
  AllowAlter = FALSE
  Definers = {"A"}
  MaxLen = 6
SPECIFICATION GSpec

INVARIANT WitnessStale
CHECK_DEADLOCK FALSE
