CONSTANTS Seeds <- S2  MaxVersion = 1  BadVersions <- NoBad  MTimes <- T2  Sizes <- T2
          EditDuringLoad = FALSE  AllowUndetectableEdit = FALSE
          Checks <- All4  StatFirst = TRUE  WriteOnlyOk = TRUE
          DevInternByForeignHash = TRUE  EmitMode = "all"
SPECIFICATION ISpec
INVARIANT TypeOK
INVARIANT NeverExecStale
INVARIANT CacheSound
INVARIANT LoadRunsCurrent
INVARIANT ValidAfterLoad
INVARIANT FailedLeavesNoValidCache
INVARIANT SnapshotEqual
INVARIANT InternOK
