CONSTANTS Tags <- TagsB  Classes <- ClassesB  Bases <- BasesB  VecElems <- VecsB  Dflt = "dflt"
          Edges <- EdgesB  PrefPairs <- PrefsB
          MaxDepth = 40  Prune = FALSE
INIT GInit
NEXT GNextSim
CONSTRAINT Emit
CHECK_DEADLOCK FALSE
