INIT InitG
NEXT NextG
CONSTANTS MaxMsgs = 2  UniSize = 10  Dev = "none"
INVARIANT EmitG
INVARIANT GotIsPrefix
INVARIANT BufIsRemainder
INVARIANT NeverPartial
CHECK_DEADLOCK FALSE
