CONSTANTS Tags <- TagsN  Classes = {}  Bases = {}  VecElems <- NoVecs  Dflt = "dflt"
          Edges <- EdgesN  PrefPairs <- PrefsN
          DevOrder = FALSE  DevClassAnc = FALSE  ResetOn <- NoAdd  CheckHier = TRUE
INIT IInit
NEXT INext
INVARIANT CacheInvisible
INVARIANT CacheCoherent
CHECK_DEADLOCK FALSE
