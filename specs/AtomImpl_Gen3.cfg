CONSTANTS Threads <- T3  Progs <- GenProgs3  InitVal <- MCInit  Validator = "lt3"  Watching = TRUE
          CasIdentityFirst = TRUE  UseLock = TRUE
SPECIFICATION GSpec
CONSTRAINT Emit
CHECK_DEADLOCK FALSE
