CONSTANTS U <- UQ  DevBoolSeq = FALSE  DevBoolKey = FALSE  DevHashByRep = FALSE  KeySeq <- KeysQ  MaxDepth = 2
INIT InitL
NEXT NextL
INVARIANT LookupRespectsEq
CONSTRAINT EmitL
CHECK_DEADLOCK FALSE
