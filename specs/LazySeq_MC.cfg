CONSTANTS Threads <- T2  N = 2  FailPolicy = "either"  Progs <- ProgsS  Plans <- PlansB2
SPECIFICATION Spec
INVARIANT LTypeOK
INVARIANT RunsAtMostOnce
INVARIANT ThrowKeepsCell
INVARIANT DemandBound
INVARIANT InOrder
PROPERTY Termination
