------------------------------- MODULE LazySeq_Trace -------------------------------
(* Batch trace validation for C06: every recorded execution of a real lazy sequence       *)
(* consumed by real threads must be a behaviour of LazySeq.tla.                            *)
(* Events (ordered by sequence numbers taken under the harness log lock):                  *)
(*   call(t, op, c)     thread t (or the producer it is in) asks op of the handle of cell c *)
(*   pstart(t, c)       the harness producer of cell c has been entered by thread t         *)
(*   pend(t, c, ok)     ... is about to return (ok) / to raise (~ok)                         *)
(*   ret(t, res)        the call returned res (abstract value) / raised (exc)               *)
(*   park / resume      the producer blocked on / was released from a harness event: no     *)
(*                      meaning for the required behaviour, consumed without effect         *)
(* Silent, placed by TLC: a call looking at a done cell (Observe), at a failed cell, or      *)
(* being refused re-entrantly.  All traces of one file have the same number of cells.        *)
EXTENDS Integers, Sequences, FiniteSets, TLC, Json, IOUtils

Traces == JsonDeserialize(IOEnv.TRACE_FILE)
Threads == 1..3
N == Traces[1].n
FailPolicy == "either"
VARIABLES tid, l, st, runner, okruns, dem, stack
INSTANCE LazySeq
vars == <<tid, l, st, runner, okruns, dem, stack>>
lv == <<st, runner, okruns, dem, stack>>

Tr == Traces[tid].ev
Ev == Tr[l]
Init == tid \in 1..Len(Traces) /\ l = 1 /\ LInit
Consume == l' = l + 1 /\ UNCHANGED tid
Is(k) == l <= Len(Tr) /\ Ev.k = k

TCall  == Is("call") /\ LCall(Ev.t, Ev.op, Ev.c) /\ Consume
TStart == Is("pstart") /\ LStart(Ev.t, Ev.c) /\ Consume
TEnd   == Is("pend") /\ LEnd(Ev.t, Ev.c, Ev.ok) /\ Consume
TRet   == Is("ret") /\ LRet(Ev.t, Ev.res) /\ Consume
TNoop  == l <= Len(Tr) /\ Ev.k \in {"park", "resume"} /\ Consume /\ UNCHANGED lv
TSilent(t) == (LObserve(t) \/ LObserveFailed(t) \/ LRefuse(t)) /\ UNCHANGED <<tid, l>>

Next == TCall \/ TStart \/ TEnd \/ TRet \/ TNoop \/ \E t \in Threads : TSilent(t)
Spec == Init /\ [][Next]_vars

(* acceptance: every event consumed and no call pending *)
Accept == (l = Len(Tr) + 1 /\ \A t \in Threads : stack[t] = <<>>) => PrintT(<<"ACC", Traces[tid].id>>)
(* diagnosis of a rejected trace: every position reached (the driver takes the maximum) *)
Prefix == PrintT(<<"PFX", tid * 10000 + l>>)
====================================================================================
