---------------------------------- MODULE Bindings_MC ----------------------------------
EXTENDS BindingsImpl
T1 == {1}
T2 == {1, 2}
T3 == {1, 2, 3}
Dyn == {"a", "b", "c"}
Dyn2 == {"a", "b"}
MVals == {1, 2}
MBad == 9
M(a, b, c, n) == LET D == (IF a = 0 THEN {} ELSE {"a"}) \cup (IF b = 0 THEN {} ELSE {"b"}) \cup (IF c = 0 THEN {} ELSE {"c"})
                             \cup (IF n = 0 THEN {} ELSE {"n"})
                 IN [v \in D |-> CASE v = "a" -> a [] v = "b" -> b [] v = "c" -> c [] OTHER -> n]
(* every map over the Vars with values 1, Bad (design check) *)
AllMaps == {M(a, b, c, n) : a \in {0, 1, 9}, b \in {0, 2, 9}, c \in {0, 1}, n \in {0, 1}} \ {M(0, 0, 0, 0)}
SomeMaps == {M(1, 0, 0, 0), M(0, 2, 0, 0), M(1, 1, 0, 0), M(2, 2, 2, 0), M(1, 0, 0, 1), M(1, 9, 0, 0), M(2, 1, 0, 1),
             M(0, 0, 0, 1), M(9, 0, 1, 0)}
RECURSIVE Perms(_)
Perms(S) == IF S = {} THEN {<< >>} ELSE UNION {{<<x>> \o p : p \in Perms(S \ {x})} : x \in S}
AllOrders == Perms(Dyn \cup {"n"})
OneOrder == {<<"a", "b", "c", "n">>}
RotOrders == {<<"a", "b", "c", "n">>, <<"n", "a", "b", "c">>, <<"c", "n", "a", "b">>, <<"b", "c", "n", "a">>}
TwoOrders == {<<"a", "b", "c", "n">>, <<"n", "c", "b", "a">>}
FewMaps == {M(1, 0, 0, 0), M(1, 2, 0, 0), M(1, 0, 0, 1), M(2, 9, 1, 0), M(0, 2, 1, 1)}
OneVal == {2}
TinyMaps == {M(1, 0, 0, 0), M(1, 2, 0, 1)}
AllKinds == {"future", "boundfn", "pmap", "raw"}
TwoKinds == {"future", "raw"}
========================================================================================
