-------------------------------- MODULE EqHashImpl --------------------------------
(* C05 -- equality, hashing and lookup AS BUILT, next to the required EqHash.          *)
(*                                                                                    *)
(* The pinned tree compares and hashes through Python:                                 *)
(*   Dev_BoolIsInt       inside collections (elements of sequential values, keys and   *)
(*                       values of maps, elements of sets, and keys looked up in maps  *)
(*                       and sets) Python's True == 1 and False == 0 decide; only the  *)
(*                       top level of `=` keeps booleans apart (runtime.equals).       *)
(*   Dev_HashByRepresentation  a vector / map entry hashes as a pyrsistent pvector,    *)
(*                       every other sequential value as a tuple: equal sequential     *)
(*                       values of the two families have different hashes, so as keys  *)
(*                       of maps / elements of sets they do not find each other, and   *)
(*                       sets / maps that contain them are not equal.                  *)
(* ICanon(v, bi, hr, nested, askey) is the class of v under that behaviour (bi, hr: the *)
(* two deviations; nested: below the top level; askey: in a position that is hashed).  *)
(* With both deviations off it is Canon (invariant Refines).                           *)
(*                                                                                    *)
(* Machine T (from EqHash) gets the as-built invariants; machine L is the lookup       *)
(* machine: a model map and a model set keyed by CLASS, run for four keyings at once   *)
(* ("req" = Canon, "B", "H", "BH" = as built with the deviations), so that every node  *)
(* of the history tree carries the required observations and what the as-built model   *)
(* predicts.                                                                           *)
EXTENDS EqHash, Json

CONSTANTS DevBoolIsInt, DevHashByRep,   \* machine T: the deviations under which the as-built invariants are checked
          KeySeq,                       \* machine L: sequence of indices into U used as keys
          MaxDepth

Family(r) == IF r \in {"vector", "entry"} THEN "pvec" ELSE "tuple"

RECURSIVE ICanon(_, _, _, _, _)
ICanon(v, bi, hr, nested, askey) ==
  CASE v.k = "nil" -> <<"nil">>
    [] v.k = "bool" -> IF bi /\ nested THEN <<"num", IF v.b THEN 1 ELSE 0, 1>> ELSE <<"bool", IF v.b THEN 1 ELSE 0>>
    [] v.k = "num" -> NumClass(v.n, v.d)
    [] v.k = "nan" -> <<"nan">>
    [] v.k \in {"str", "kw", "sym"} -> <<v.k, v.s>>
    [] v.k = "seq" -> <<"seq", IF hr /\ askey THEN Family(v.r) ELSE "-",
                        [i \in 1..Len(v.xs) |-> ICanon(v.xs[i], bi, hr, TRUE, askey)]>>
    [] v.k = "set" -> <<"set", {ICanon(v.xs[i], bi, hr, TRUE, TRUE) : i \in 1..Len(v.xs)}>>
    [] v.k = "map" -> <<IF v.r = "pmap" THEN "map" ELSE v.r,
                        {<<ICanon(v.es[i][1], bi, hr, TRUE, TRUE), ICanon(v.es[i][2], bi, hr, TRUE, askey)>>
                           : i \in 1..Len(v.es)}>>

ImplEqD(x, y, bi, hr) == ~IsNaN(x) /\ ~IsNaN(y) /\ ICanon(x, bi, hr, FALSE, FALSE) = ICanon(y, bi, hr, FALSE, FALSE)
(* equal hashes, as built (Python hashes True like 1 whatever else happens) *)
ImplHashSameD(x, y, hr) == ICanon(x, TRUE, hr, TRUE, TRUE) = ICanon(y, TRUE, hr, TRUE, TRUE)
ImplEq(x, y) == ImplEqD(x, y, DevBoolIsInt, DevHashByRep)
ImplHashSame(x, y) == ImplHashSameD(x, y, DevHashByRep)

(* ------------------------------ machine T: as-built invariants ----------------------- *)
(* constant tables (U is a constant) *)
IEqTabD(bi, hr) == LET C == TLCEval([i \in 1..NU |-> ICanon(U[i], bi, hr, FALSE, FALSE)])
                   IN TLCEval([i \in 1..NU |-> TLCEval([j \in 1..NU |-> ~IsNaN(U[i]) /\ ~IsNaN(U[j]) /\ C[i] = C[j]])])
IHsTabD(hr) == LET C == TLCEval([i \in 1..NU |-> ICanon(U[i], TRUE, hr, TRUE, TRUE)])
               IN TLCEval([i \in 1..NU |-> TLCEval([j \in 1..NU |-> C[i] = C[j]])])
IEqTab == IEqTabD(DevBoolIsInt, DevHashByRep)
IHsTab == IHsTabD(DevHashByRep)
Refines == IEqTab[a][b] <=> EqI(a, b)
HashRespects == EqI(a, b) => IHsTab[a][b]
ImplSymmetric == IEqTab[a][b] <=> IEqTab[b][a]
ImplTransitive == (IEqTab[a][b] /\ IEqTab[b][c]) => IEqTab[a][c]
TabB == IEqTabD(TRUE, FALSE)
TabH == IEqTabD(FALSE, TRUE)
TabBH == IEqTabD(TRUE, TRUE)
TabHsH == IHsTabD(TRUE)

Bit(x) == IF x THEN 1 ELSE 0
Cls(i) == IF IsNaN(U[i]) THEN 0 ELSE CHOOSE j \in 1..NU : EqI(i, j) /\ \A m \in 1..(j - 1) : ~EqI(i, m)
(* one table row per value: the required verdicts and what the as-built model says *)
Row == [i |-> a, v |-> El(a), cls |-> Cls(a),
        eq |-> [j \in 1..NU |-> Bit(EqI(a, j))],
        eqB |-> [j \in 1..NU |-> Bit(TabB[a][j])],
        eqH |-> [j \in 1..NU |-> Bit(TabH[a][j])],
        eqBH |-> [j \in 1..NU |-> Bit(TabBH[a][j])],
        hsH |-> [j \in 1..NU |-> Bit(TabHsH[a][j])]]
EmitT == (b = 1 /\ c = 1) => PrintT(<<"TAB", ToJson(Row)>>)

(* ------------------------------ machine L: lookup ------------------------------------ *)
VARIABLES lm,       \* [mode -> model map: key class -> value]
          ls,       \* [mode -> model set of key classes]
          path,     \* the operations so far, <<op, position in KeySeq>>
          used      \* the keys used so far (for `distinct`)
lvars == <<lm, ls, path, used>>
Modes == {"req", "B", "H", "BH"}
NK == Len(KeySeq)
KeyVal(p) == U[KeySeq[p]]
KC(p, mo) == CASE mo = "req" -> Canon(KeyVal(p))
               [] mo = "B" -> ICanon(KeyVal(p), TRUE, FALSE, TRUE, TRUE)
               [] mo = "H" -> ICanon(KeyVal(p), FALSE, TRUE, TRUE, TRUE)
               [] mo = "BH" -> ICanon(KeyVal(p), TRUE, TRUE, TRUE, TRUE)
(* the class of key number p under a keying: the first key position with the same class (a constant table) *)
KCTab == TLCEval([mo \in Modes |-> TLCEval([p \in 1..NK |-> KC(p, mo)])])
KCls == TLCEval([mo \in Modes |-> TLCEval([p \in 1..NK |->
           CHOOSE q \in 1..NK : KCTab[mo][q] = KCTab[mo][p] /\ \A r \in 1..(q - 1) : KCTab[mo][r] # KCTab[mo][p]])])

MSet(m, k, v) == [x \in DOMAIN m \cup {k} |-> IF x = k THEN v ELSE m[x]]
MDel(m, k) == [x \in DOMAIN m \ {k} |-> m[x]]
EmptyMap == [x \in {} |-> 0]

Idle == lm = [mo \in Modes |-> EmptyMap] /\ ls = [mo \in Modes |-> {}] /\ path = <<>> /\ used = <<>>
InitTI == InitT /\ Idle                                   \* machine T inside this module
NextTI == NextT /\ UNCHANGED <<lm, ls, path, used>>
InitL == /\ lm = [mo \in Modes |-> EmptyMap] /\ ls = [mo \in Modes |-> {}]
         /\ path = <<>> /\ used = <<>>
         /\ a = 1 /\ b = 1 /\ c = 1
Op(op, p) ==
  /\ lm' = [mo \in Modes |-> CASE op = "assoc" -> MSet(lm[mo], KCls[mo][p], Len(path) + 1)
                               [] op = "dissoc" -> MDel(lm[mo], KCls[mo][p])
                               [] OTHER -> lm[mo]]
  /\ ls' = [mo \in Modes |-> CASE op = "conj" -> ls[mo] \cup {KCls[mo][p]}
                               [] op = "disj" -> ls[mo] \ {KCls[mo][p]}
                               [] OTHER -> ls[mo]]
  /\ path' = Append(path, <<op, p>>) /\ used' = Append(used, p)
  /\ UNCHANGED tvars
NextL == Len(path) < MaxDepth /\ \E op \in {"assoc", "dissoc", "conj", "disj"}, p \in 1..NK : Op(op, p)

(* what the implementation must show in a state, under one keying *)
LObs(mo) ==
  [get |-> [p \in 1..NK |-> IF KCls[mo][p] \in DOMAIN lm[mo] THEN lm[mo][KCls[mo][p]] ELSE 0],
   has |-> [p \in 1..NK |-> Bit(KCls[mo][p] \in ls[mo])],
   nm |-> Cardinality(DOMAIN lm[mo]), ns |-> Cardinality(ls[mo]),
   (* (distinct <keys used so far>) keeps the first occurrence of every class *)
   dist |-> {n \in 1..Len(used) : \A m \in 1..(n - 1) : KCls[mo][used[m]] # KCls[mo][used[n]]}]
EmitL == PrintT(<<"NODE", ToJson([p |-> path, req |-> LObs("req"),
                                  dev |-> [mo \in {m \in Modes \ {"req"} : LObs(m) # LObs("req")} |-> LObs(mo)]])>>)
(* lookup with one representation finds what was stored with another: by construction of the class keying; *)
(* stated as an invariant so that a change of the machine that loses it is noticed                             *)
LookupRespectsEq ==
  \A p, q \in 1..NK : EqI(KeySeq[p], KeySeq[q]) =>
     /\ LObs("req").get[p] = LObs("req").get[q]
     /\ LObs("req").has[p] = LObs("req").has[q]
===================================================================================
