-------------------------------- MODULE EqHashImpl --------------------------------
(* C05 -- equality, hashing and lookup AS BUILT, next to the required EqHash.          *)
(*                                                                                    *)
(* The pinned tree compares and hashes through Python:                                 *)
(*   Dev_BoolIsIntInSequences   the elements of sequential values are compared with  *)
(*                       Python's != (interfaces.seq_equals): True == 1, False == 0.   *)
(*   Dev_BoolIsIntInHashedCollections   keys and values of maps, elements of sets, and *)
(*                       keys looked up in maps and sets go through Python's hash/==   *)
(*                       (immutables.Map): True is the key 1, False the key 0.         *)
(*                       (Only the top level of `=` keeps booleans apart.)             *)
(*   Dev_HashByRepresentation  a vector / map entry hashes as a pyrsistent pvector,    *)
(*                       every other sequential value as a tuple: equal sequential     *)
(*                       values of the two families have different hashes, so as keys  *)
(*                       of maps / elements of sets they do not find each other, and   *)
(*                       sets / maps that contain them are not equal.                  *)
(* ICanon(v, bs, bk, hr, ctx, askey) is the class of v under that behaviour (bs, bk, hr: *)
(* the three deviations; ctx: where v stands -- "top", "seq" = element of a sequential  *)
(* value, "hashed" = key / value / element of a map or set, or a key being looked up;   *)
(* askey: in a position that is hashed).  With the deviations off it is Canon (Refines). *)
(*                                                                                    *)
(* Machine T (from EqHash) gets the as-built invariants; machine L is the lookup       *)
(* machine: a model map and a model set keyed by CLASS, run for four keyings at once   *)
(* ("req" = Canon, "S" "K" "H" "SK" ... = as built with those deviations), so that every node *)
(* of the history tree carries the required observations and what the as-built model   *)
(* predicts.                                                                           *)
EXTENDS EqHash, Json

CONSTANTS DevBoolSeq, DevBoolKey, DevHashByRep,   \* machine T: the deviations under which the as-built invariants are checked
          KeySeq,                       \* machine L: sequence of indices into U used as keys
          MaxDepth

Family(r) == IF r \in {"vector", "entry"} THEN "pvec" ELSE "tuple"

RECURSIVE ICanon(_, _, _, _, _, _)
ICanon(v, bs, bk, hr, ctx, askey) ==
  CASE v.k = "nil" -> <<"nil">>
    [] v.k = "bool" -> IF (bs /\ ctx = "seq") \/ (bk /\ ctx = "hashed")
                         THEN <<"num", IF v.b THEN 1 ELSE 0, 1>> ELSE <<"bool", IF v.b THEN 1 ELSE 0>>
    [] v.k = "num" -> NumClass(v.n, v.d)
    [] v.k = "nan" -> <<"nan">>
    [] v.k \in {"str", "kw", "sym"} -> <<v.k, v.s>>
    [] v.k = "seq" -> <<"seq", IF hr /\ askey THEN Family(v.r) ELSE "-",
                        [i \in 1..Len(v.xs) |-> ICanon(v.xs[i], bs, bk, hr, "seq", askey)]>>
    [] v.k = "set" -> <<"set", {ICanon(v.xs[i], bs, bk, hr, "hashed", TRUE) : i \in 1..Len(v.xs)}>>
    [] v.k = "map" -> <<IF v.r = "pmap" THEN "map" ELSE v.r,
                        {<<ICanon(v.es[i][1], bs, bk, hr, "hashed", TRUE), ICanon(v.es[i][2], bs, bk, hr, "hashed", askey)>>
                           : i \in 1..Len(v.es)}>>

ImplEqD(x, y, bs, bk, hr) == /\ ~IsNaN(x) /\ ~IsNaN(y)
                             /\ ICanon(x, bs, bk, hr, "top", FALSE) = ICanon(y, bs, bk, hr, "top", FALSE)
(* equal hashes, as built (Python hashes True like 1 whatever else happens) *)
ImplHashSameD(x, y, hr) == ICanon(x, TRUE, TRUE, hr, "hashed", TRUE) = ICanon(y, TRUE, TRUE, hr, "hashed", TRUE)

(* ------------------------------ machine T: as-built invariants ----------------------- *)
(* constant tables (U is a constant) *)
IEqTabD(bs, bk, hr) == LET C == TLCEval([i \in 1..NU |-> ICanon(U[i], bs, bk, hr, "top", FALSE)])
                   IN TLCEval([i \in 1..NU |-> TLCEval([j \in 1..NU |-> ~IsNaN(U[i]) /\ ~IsNaN(U[j]) /\ C[i] = C[j]])])
IHsTabD(hr) == LET C == TLCEval([i \in 1..NU |-> ICanon(U[i], TRUE, TRUE, hr, "hashed", TRUE)])
               IN TLCEval([i \in 1..NU |-> TLCEval([j \in 1..NU |-> C[i] = C[j]])])
IEqTab == IEqTabD(DevBoolSeq, DevBoolKey, DevHashByRep)
IHsTab == IHsTabD(DevHashByRep)
Refines == IEqTab[a][b] <=> EqI(a, b)
HashRespects == EqI(a, b) => IHsTab[a][b]
ImplSymmetric == IEqTab[a][b] <=> IEqTab[b][a]
ImplTransitive == (IEqTab[a][b] /\ IEqTab[b][c]) => IEqTab[a][c]
(* the deviation combinations: S = BoolIsIntInSequences, K = BoolIsIntInHashedCollections, H = HashByRepresentation *)
DevSets == {"S", "K", "H", "SK", "SH", "KH", "SKH"}
InS(m) == m \in {"S", "SK", "SH", "SKH"}
InK(m) == m \in {"K", "SK", "KH", "SKH"}
InH(m) == m \in {"H", "SH", "KH", "SKH"}
DevTab == TLCEval([m \in DevSets |-> IEqTabD(InS(m), InK(m), InH(m))])
TabHsH == IHsTabD(TRUE)

Bit(x) == IF x THEN 1 ELSE 0
Cls(i) == IF IsNaN(U[i]) THEN 0 ELSE CHOOSE j \in 1..NU : EqI(i, j) /\ \A m \in 1..(j - 1) : ~EqI(i, m)
(* one table row per value: the required verdicts and what the as-built model says *)
Row == [i |-> a, v |-> El(a), cls |-> Cls(a),
        eq |-> [j \in 1..NU |-> Bit(EqI(a, j))],
        dev |-> [m \in DevSets |-> [j \in 1..NU |-> Bit(DevTab[m][a][j])]],
        hsH |-> [j \in 1..NU |-> Bit(TabHsH[a][j])]]
EmitT == (b = 1 /\ c = 1) => PrintT(<<"TAB", ToJson(Row)>>)

(* ------------------------------ machine L: lookup ------------------------------------ *)
VARIABLES nxt,      \* random histories: the chosen operation, not yet performed (<<>> = none)
          lm,       \* [mode -> model map: key class -> value]
          ls,       \* [mode -> model set of key classes]
          path,     \* the operations so far, <<op, position in KeySeq>>
          used      \* the keys used so far (for `distinct`)
lvars == <<lm, ls, path, used, nxt>>
Modes == {"req"} \cup DevSets
NK == Len(KeySeq)
KeyVal(p) == U[KeySeq[p]]
KC(p, mo) == IF mo = "req" THEN Canon(KeyVal(p))
             ELSE ICanon(KeyVal(p), InS(mo), InK(mo), InH(mo), "hashed", TRUE)
(* the class of key number p under a keying: the first key position with the same class (a constant table) *)
KCTab == TLCEval([mo \in Modes |-> TLCEval([p \in 1..NK |-> KC(p, mo)])])
KCls == TLCEval([mo \in Modes |-> TLCEval([p \in 1..NK |->
           CHOOSE q \in 1..NK : KCTab[mo][q] = KCTab[mo][p] /\ \A r \in 1..(q - 1) : KCTab[mo][r] # KCTab[mo][p]])])

MSet(m, k, v) == [x \in DOMAIN m \cup {k} |-> IF x = k THEN v ELSE m[x]]
MDel(m, k) == [x \in DOMAIN m \ {k} |-> m[x]]
EmptyMap == [x \in {} |-> 0]

Idle == lm = [mo \in Modes |-> EmptyMap] /\ ls = [mo \in Modes |-> {}] /\ path = <<>> /\ used = <<>> /\ nxt = <<>>
InitTI == InitT /\ Idle                                   \* machine T inside this module
NextTI == NextT /\ UNCHANGED lvars
NextTI2 == b = 1 /\ c = 1 /\ a' = a /\ b' \in 1..NU /\ c' = 1 /\ UNCHANGED lvars     \* pairs only
InitL == Idle /\ a = 1 /\ b = 1 /\ c = 1
Op(op, p) ==
  /\ lm' = [mo \in Modes |-> CASE op = "assoc" -> MSet(lm[mo], KCls[mo][p], Len(path) + 1)
                               [] op = "dissoc" -> MDel(lm[mo], KCls[mo][p])
                               [] OTHER -> lm[mo]]
  /\ ls' = [mo \in Modes |-> CASE op = "conj" -> ls[mo] \cup {KCls[mo][p]}
                               [] op = "disj" -> ls[mo] \ {KCls[mo][p]}
                               [] OTHER -> ls[mo]]
  /\ path' = Append(path, <<op, p>>) /\ used' = Append(used, p)
  /\ UNCHANGED tvars
Ops == {"assoc", "dissoc", "conj", "disj"}
NextL == Len(path) < MaxDepth /\ (\E op \in Ops, p \in 1..NK : Op(op, p)) /\ nxt' = nxt
(* `-simulate`: the simulator evaluates every successor before it picks one, so a random step first      *)
(* chooses the operation (cheap successors) and then performs it (one successor, the one that is printed) *)
NextLS == IF nxt = <<>>
            THEN Len(path) < MaxDepth /\ (\E op \in Ops, p \in 1..NK : nxt' = <<op, p>>) /\ UNCHANGED <<a, b, c, lm, ls, path, used>>
            ELSE Op(nxt[1], nxt[2]) /\ nxt' = <<>>

(* what the implementation must show in a state, under one keying *)
LObs(mo) ==
  [get |-> [p \in 1..NK |-> IF KCls[mo][p] \in DOMAIN lm[mo] THEN lm[mo][KCls[mo][p]] ELSE 0],
   has |-> [p \in 1..NK |-> Bit(KCls[mo][p] \in ls[mo])],
   nm |-> Cardinality(DOMAIN lm[mo]), ns |-> Cardinality(ls[mo]),
   (* (distinct <keys used so far>) keeps the first occurrence of every class *)
   dist |-> {n \in 1..Len(used) : \A m \in 1..(n - 1) : KCls[mo][used[m]] # KCls[mo][used[n]]}]
EmitL == nxt = <<>> =>
  LET O == TLCEval([mo \in Modes |-> LObs(mo)]) IN
  PrintT(<<"NODE", ToJson([p |-> path, ks |-> IF path = <<>> THEN KeySeq ELSE <<>>, req |-> O["req"],
                           dev |-> [mo \in {m \in Modes \ {"req"} : O[m] # O["req"]} |-> O[mo]]])>>)
(* lookup with one representation finds what was stored with another: by construction of the class keying; *)
(* stated as an invariant so that a change of the machine that loses it is noticed                             *)
LookupRespectsEq ==
  LET o == LObs("req") IN
  \A p, q \in 1..NK : EqI(KeySeq[p], KeySeq[q]) => (o.get[p] = o.get[q] /\ o.has[p] = o.has[q])
===================================================================================
