--------------------------------- MODULE Arith_Trace ---------------------------------
(* code -> spec for C20 on operands of any magnitude: each record is one real call          *)
(*   [op, xn, xd, yn, yd, rn, rd, rint]  (ratios as numerator / denominator, big integers as *)
(* limbs; rint: the result's Python type is int).  TLC evaluates, with Limbs.tla, whether    *)
(* the observed result is the exact rational result / satisfies the quot-rem-mod identities. *)
EXTENDS Limbs, TLC, Json, IOUtils, FiniteSets

Recs == JsonDeserialize(IOEnv.TRACE_FILE)
VARIABLES rid, verdict
vars == <<rid, verdict>>
R == Recs[rid]

(* x, y: operands as fractions; r: observed result *)
Xn == R.xn  Xd == R.xd  Yn == R.yn  Yd == R.yd  Rn == R.rn  Rd == R.rd
(* r = (an / ad) as cross-multiplication, all denominators positive *)
EqFrac(an, ad, bn, bd) == Mul(an, bd) = Mul(bn, ad)
WF == /\ WellFormed(Xn) /\ WellFormed(Xd) /\ WellFormed(Yn) /\ WellFormed(Yd) /\ WellFormed(Rn) /\ WellFormed(Rd)
      /\ Xd.s = 1 /\ Yd.s = 1 /\ Rd.s = 1
Exact ==
  CASE R.op = "add" -> EqFrac(Rn, Rd, Add(Mul(Xn, Yd), Mul(Yn, Xd)), Mul(Xd, Yd))
    [] R.op = "sub" -> EqFrac(Rn, Rd, Sub(Mul(Xn, Yd), Mul(Yn, Xd)), Mul(Xd, Yd))
    [] R.op = "mul" -> EqFrac(Rn, Rd, Mul(Xn, Yn), Mul(Xd, Yd))
    [] R.op = "div" -> Mul(Mul(Rn, Xd), Yn) = Mul(Mul(Xn, Yd), Rd)          \* r = (xn yd) / (xd yn)
    [] OTHER -> TRUE
(* an integral ratio is an integer (and only an integral one) *)
IntIffIntegral == R.rint = (Rd = One)

(* quot / rem / mod on integers (xd = yd = 1): the record carries q, r (rem), m (mod) *)
QRM == R.op = "qrm" =>
        /\ Add(Mul(Yn, R.q), R.r) = Xn                        \* x = y * quot + rem
        /\ R.r.s \in {0, Xn.s}                                \* rem takes the sign of x
        /\ AbsLt(R.r, Yn)
        /\ R.m.s \in {0, Yn.s}                                \* mod takes the sign of y
        /\ AbsLt(R.m, Yn)
        /\ (R.m = R.r \/ R.m = Add(R.r, Yn))                  \* mod is congruent to x
Holds == WF /\ Exact /\ (R.op # "qrm" => IntIffIntegral) /\ QRM

Init == rid \in 1..Len(Recs) /\ verdict = "pending"
Next == verdict = "pending" /\ verdict' = (IF Holds THEN "ok" ELSE "bad") /\ UNCHANGED rid
Spec == Init /\ [][Next]_vars
Emit == (verdict # "pending") => PrintT(<<IF verdict = "ok" THEN "ACC" ELSE "REJ", rid>>)
======================================================================================
