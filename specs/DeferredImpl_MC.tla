------------------------------ MODULE DeferredImpl_MC ------------------------------
EXTENDS DeferredImpl
C(op, timed, a) == [op |-> op, timed |-> timed, a |-> a]
Dr == C("deref", FALSE, NilV)
Dt == C("deref", TRUE, NilV)
Rz == C("realized", FALSE, NilV)
Dl(i) == C("deliver", FALSE, IntV(i))
T2 == {1, 2}
T3 == {1, 2, 3}
DelayProgs == { <<Dr>>, <<Dr, Dr>>, <<Rz, Dr>>, <<Dr, Rz>>, <<Rz, Rz>> }
DelayProgs3 == { <<Dr>>, <<Rz, Dr>>, <<Dr, Rz>> }
PromiseProgs == { <<Dl(1)>>, <<Dl(2), Dr>>, <<Dr>>, <<Dt>>, <<Dt, Dt>>, <<Rz, Dr>>, <<Dt, Rz>>, <<Dl(1), Dl(2)>>, <<Rz, Dl(2), Rz>> }
PromiseProgs3 == { <<Dl(1)>>, <<Dl(2), Dr>>, <<Dr>>, <<Dt>>, <<Rz, Dt>> }
FutureProgs == { <<Dr>>, <<Dt>>, <<Dt, Dr>>, <<Rz, Dr>>, <<Dt, Rz>>, <<Rz, Rz>> }
FutureProgs3 == { <<Dr>>, <<Dt>>, <<Rz, Dt>> }
OutsOk == <<IntV(1), IntV(2), IntV(3)>>              \* every run returns another value
OutsThrowFirst == <<ExcV(1), IntV(2), IntV(3)>>      \* the first run raises
OutsThrow == <<ExcV(1)>>
OutsTimeout == <<ExcV(2)>>                           \* the body raises TimeoutError
K(kind, progs, outs) == [kind |-> kind, progs |-> progs, outs |-> outs]
AllKinds == { K("delay", DelayProgs, OutsOk), K("delay", DelayProgs, OutsThrowFirst), K("delay", DelayProgs, OutsThrow),
              K("promise", PromiseProgs, OutsOk),
              K("future", FutureProgs, OutsOk), K("future", FutureProgs, OutsThrow), K("future", FutureProgs, OutsTimeout) }
AllKinds3 == { K("delay", DelayProgs3, OutsOk), K("delay", DelayProgs3, OutsThrowFirst),
               K("promise", PromiseProgs3, OutsOk), K("future", FutureProgs3, OutsTimeout) }
FutureProgsQ == { <<Dr>>, <<Dt>>, <<Rz, Dr>>, <<Dt, Rz>> }
PromiseProgsQ == { <<Dl(1)>>, <<Dl(2), Dr>>, <<Dt>>, <<Rz, Dr>>, <<Dt, Rz>>, <<Dl(1), Dl(2)>> }
QuickKinds == { K("delay", DelayProgs, OutsThrowFirst), K("promise", PromiseProgsQ, OutsOk),
                K("future", FutureProgsQ, OutsTimeout) }
OnlyDelay == { K("delay", DelayProgs, OutsOk) }
OnlyPromise == { K("promise", PromiseProgs, OutsOk) }
OnlyFutureTO == { K("future", FutureProgs, OutsTimeout) }
NoDevs == {}
BothDevs == {"DelayBodyInRetryLoop", "FutureSwallowsTimeoutError"}
====================================================================================
