CONSTANTS Ty = "map"  Elems = {0, 1, 2, 3}  KeySeq <- Keys4  MaxProbe = 3  Metas = {1, 2}
          MaxDepth = 2  MaxSize = 8  Shard = 0  NShards = 1  Mode = "tree"  Bug = "mergeleft"
INIT Init
NEXT Next
INVARIANT Laws
INVARIANT TransientLaws
PROPERTY AppendOnly
PROPERTY TransientDiscipline
CHECK_DEADLOCK FALSE
