---------------------------------- MODULE Calls ----------------------------------
(* C08 -- Calls bind arguments to the right arity however the call is made.            *)
(*                                                                                    *)
(* One behaviour = one call of one function.  A function is its arity SIGNATURE (a set *)
(* of fixed arities within 0..MaxFix and at most one variadic arity whose fixed part   *)
(* is not smaller than any fixed arity); a call has a SHAPE                            *)
(*     direct | through the Var | apply with k leading arguments and a lazy tail of    *)
(*     n elements (or an infinite one when the function is variadic)                   *)
(* each optionally behind `partial` of p arguments.  Arguments are named by their      *)
(* position 1, 2, 3, ... in the order the caller wrote them (partial arguments first,  *)
(* then the leading ones, then the elements of the tail).                              *)
(*                                                                                    *)
(* The machine learns the argument count the way any implementation has to: the eager  *)
(* arguments are known, the tail only by pulling (PullFromTail realizes one element to *)
(* bind a fixed parameter, TestMore looks whether there is a further one).  It then    *)
(* selects the arity (SelectArity), binds (BindFixed, BindRest) and enters the body    *)
(* (EnterBody) -- or raises the arity error (ArityError) without entering.  Inside the *)
(* body Recur rebinds the parameters of the running arity in the same activation.      *)
(*                                                                                    *)
(* Specified (invariants below): the outcome of every case is the one given by the     *)
(* declarative operators Sel/Outcome (exactly one outcome per case); an arity error    *)
(* happens before any body code; with a variadic signature at most                     *)
(* max(0, F - eager) + 1 elements of the tail are realized (F = fixed part of the      *)
(* variadic arity: "binding the fixed parameters and testing for further arguments");  *)
(* recur keeps the activation depth.                                                   *)
(* Where the property is silent the machine is nondeterministic: a function WITHOUT a  *)
(* variadic arity has to count a (finite) argument sequence to find its arity or to    *)
(* reject the call, so it may realize any part of it.                                  *)
EXTENDS Integers, Sequences, FiniteSets, TLC, Json

CONSTANTS MaxFix,      \* fixed arities and the fixed part of the variadic arity are within 0..MaxFix
          MaxArgc,     \* finite calls pass 0..MaxArgc arguments in all
          MaxTail,     \* finite lazy tails have 0..MaxTail elements
          MaxPartial,  \* partial of 0..MaxPartial arguments
          InfLead,     \* infinite tails: 0..InfLead eager arguments in front
          MaxIter,     \* recur: iterations explored
          Mut          \* "none"; anti-vacuity mutants of the MACHINE that the invariants must reject:
                       \* "eager" (apply realizes the whole tail), "gt" (variadic arity needs MORE than F
                       \* arguments), "grow" (recur nests an activation), "body" (body entered before the
                       \* arity error), "restnil" (recur with no rest binds an empty seq instead of nil)

INF == 99              \* "no end": position of the last element of an infinite tail

(* ------------------------------ signatures and calls ------------------------------ *)
Max(S) == IF S = {} THEN -1 ELSE CHOOSE x \in S : \A y \in S : y <= x
Sigs == {s \in [fixed : SUBSET (0..MaxFix), var : -1..MaxFix] :
           /\ s.fixed # {} \/ s.var >= 0
           /\ s.var >= 0 => \A f \in s.fixed : f <= s.var}
Variadic(s) == s.var >= 0

Shapes(s) ==
       {[how |-> h, p |-> p, k |-> k, n |-> 0, inf |-> FALSE] :
            h \in {"direct", "var"}, p \in 0..MaxPartial, k \in 0..MaxArgc}
  \cup {[how |-> "apply", p |-> p, k |-> k, n |-> n, inf |-> FALSE] :
            p \in 0..MaxPartial, k \in 0..MaxArgc, n \in 0..MaxTail}
  \cup (IF Variadic(s)
        THEN {[how |-> "apply", p |-> p, k |-> k, n |-> 0, inf |-> TRUE] :
                 p \in 0..MaxPartial, k \in 0..InfLead}
        ELSE {})
Calls(s) == {c \in Shapes(s) : c.inf \/ c.p + c.k + c.n <= MaxArgc}

Eager(c) == c.p + c.k                            \* arguments the callee sees without touching the tail
Argc(c) == IF c.inf THEN INF ELSE c.p + c.k + c.n

(* ------------------------------ what must happen (declarative) --------------------- *)
(* the one matching arity: the fixed arity with exactly that many parameters, otherwise *)
(* the variadic one when there are at least as many arguments as its fixed part         *)
Sel(s, argc) == IF argc \in s.fixed THEN [kind |-> "fixed", n |-> argc]
                ELSE IF Variadic(s) /\ argc >= s.var THEN [kind |-> "variadic", n |-> s.var]
                ELSE [kind |-> "none", n |-> 0]

NoRest == [ty |-> "none"]                        \* the arity has no rest parameter
NilRest == [ty |-> "nil"]
SeqRest(from, to) == [ty |-> "seq", from |-> from, to |-> to]     \* arguments from..to in order, to = INF: endless

Outcome(s, c) ==
  LET a == Sel(s, Argc(c)) IN
  [err   |-> a.kind = "none",
   sel   |-> a,
   bound |-> [i \in 1..a.n |-> i],
   rest  |-> IF a.kind # "variadic" THEN NoRest
             ELSE IF Argc(c) = a.n THEN NilRest ELSE SeqRest(a.n + 1, Argc(c))]

(* how many elements of the tail apply may realize *)
RealizedBound(s, c) ==
  IF c.how # "apply" THEN 0
  ELSE IF Variadic(s) THEN (IF s.var > Eager(c) THEN s.var - Eager(c) ELSE 0) + 1
  ELSE c.n

(* ------------------------------ the machine ---------------------------------------- *)
VARIABLES sig, call,
          pc,          \* "gather" "reject" "bind" "body" "done"
          realized,    \* elements of the tail realized so far
          ended,       \* the callee knows that there is no further argument
          tested,      \* the one look-ahead beyond the fixed parameters has been spent
          sel, bound, rest,
          entered,     \* number of times body code started to run
          err,
          depth, iter, \* activations on the stack; recur iterations done
          lastk        \* recur: what the last recur argument was ("-" outside recur)
vars == <<sig, call, pc, realized, ended, tested, sel, bound, rest, entered, err, depth, iter, lastk>>

Unsel == [kind |-> "unsel", n |-> 0]
Unbound == [ty |-> "unbound"]

Init == /\ sig \in Sigs
        /\ call \in Calls(sig)
        /\ pc = "gather" /\ realized = 0
        /\ ended = (call.how # "apply")         \* a direct call passes all its arguments at once
        /\ tested = FALSE
        /\ sel = Unsel /\ bound = <<>> /\ rest = Unbound
        /\ entered = 0 /\ err = FALSE /\ depth = 0 /\ iter = 0 /\ lastk = "-"

Known == Eager(call) + realized
HasNext == call.inf \/ realized < call.n
F == sig.var

(* realize one element of the tail because a fixed parameter still needs an argument (a function   *)
(* without variadic arity must count: it may pull whenever there is something to pull)               *)
PullFromTail ==
  /\ pc = "gather" /\ ~ended /\ HasNext
  /\ IF Mut = "eager" THEN TRUE ELSE (Variadic(sig) => Known < F)
  /\ realized' = realized + 1
  /\ UNCHANGED <<sig, call, pc, ended, tested, sel, bound, rest, entered, err, depth, iter, lastk>>

(* look whether there is a further argument: finding the end realizes nothing; finding an element   *)
(* realizes it, which is allowed once after the fixed parameters of the variadic arity are covered  *)
TestMore ==
  /\ pc = "gather" /\ ~ended
  /\ \/ /\ ~HasNext
        /\ ended' = TRUE /\ UNCHANGED <<realized, tested>>
     \/ /\ HasNext /\ Variadic(sig) /\ Known >= F /\ ~tested
        /\ realized' = realized + 1 /\ tested' = TRUE /\ UNCHANGED ended
  /\ UNCHANGED <<sig, call, pc, sel, bound, rest, entered, err, depth, iter, lastk>>

(* the arity can be selected as soon as the count is known, or known to exceed every fixed arity    *)
Decided == \/ ended
           \/ Variadic(sig) /\ Known > F
           \/ ~Variadic(sig) /\ Known > Max(sig.fixed)
MSel(s, argc) == IF Mut = "gt" /\ argc \notin s.fixed
                 THEN (IF Variadic(s) /\ argc > s.var THEN [kind |-> "variadic", n |-> s.var]
                       ELSE [kind |-> "none", n |-> 0])
                 ELSE Sel(s, argc)
SelectArity ==
  /\ pc = "gather" /\ Decided
  /\ sel' = IF ended THEN MSel(sig, Known)
            ELSE IF Variadic(sig) THEN [kind |-> "variadic", n |-> F]
            ELSE [kind |-> "none", n |-> 0]
  /\ pc' = IF sel'.kind = "none" THEN "reject" ELSE "bind"
  /\ entered' = IF Mut = "body" /\ sel'.kind = "none" THEN entered + 1 ELSE entered
  /\ UNCHANGED <<sig, call, realized, ended, tested, bound, rest, err, depth, iter, lastk>>

ArityError ==
  /\ pc = "reject"
  /\ err' = TRUE /\ pc' = "done"
  /\ UNCHANGED <<sig, call, realized, ended, tested, sel, bound, rest, entered, depth, iter, lastk>>

BindFixed(i) ==
  /\ pc = "bind" /\ i = Len(bound) + 1 /\ i <= sel.n
  /\ bound' = Append(bound, i)                    \* parameter i takes argument i
  /\ UNCHANGED <<sig, call, pc, realized, ended, tested, sel, rest, entered, err, depth, iter, lastk>>

BindRest ==
  /\ pc = "bind" /\ Len(bound) = sel.n /\ rest = Unbound
  /\ rest' = IF sel.kind = "fixed" THEN NoRest
             ELSE IF ended /\ Known = sel.n THEN NilRest
             ELSE SeqRest(sel.n + 1, Argc(call))  \* the surplus, in order; the unrealized part stays lazy
  /\ UNCHANGED <<sig, call, pc, realized, ended, tested, sel, bound, entered, err, depth, iter, lastk>>

EnterBody ==
  /\ pc = "bind" /\ Len(bound) = sel.n /\ rest # Unbound
  /\ pc' = "body" /\ entered' = entered + 1 /\ depth' = depth + 1
  /\ UNCHANGED <<sig, call, realized, ended, tested, sel, bound, rest, err, iter, lastk>>

(* recur: as many arguments as the running arity has parameters (the rest parameter counts as one);  *)
(* fixed parameters take the new arguments (named 10*iter + i), the rest parameter takes the last     *)
(* argument AS GIVEN: nil stays nil, a sequence of m elements is the new rest.  No new activation.    *)
(* Explored for direct calls only: what recur does depends on the running arity alone.                *)
LastKinds == {"nil", "seq1", "seq2", "val"}
Recur(lk) ==
  /\ pc = "body" /\ iter < MaxIter /\ call.how = "direct" /\ call.p = 0
  /\ sel.kind = "fixed" => sel.n > 0 \/ lk = "val"           \* without parameters there is no last argument
  /\ sel.kind = "variadic" => lk # "val"                     \* a rest parameter is given nil or a sequence
  /\ iter' = iter + 1 /\ lastk' = lk
  /\ bound' = [i \in 1..sel.n |-> 10 * iter' + i]
  /\ rest' = IF sel.kind = "fixed" THEN NoRest
             ELSE IF lk = "nil" THEN (IF Mut = "restnil" THEN SeqRest(1, 0) ELSE NilRest)
             ELSE SeqRest(10 * iter' + sel.n + 1, 10 * iter' + sel.n + (IF lk = "seq1" THEN 1 ELSE 2))
  /\ entered' = entered + 1
  /\ depth' = IF Mut = "grow" THEN depth + 1 ELSE depth
  /\ UNCHANGED <<sig, call, pc, realized, ended, tested, sel, err>>

Return ==
  /\ pc = "body" /\ pc' = "done" /\ depth' = depth - 1
  /\ UNCHANGED <<sig, call, realized, ended, tested, sel, bound, rest, entered, err, iter, lastk>>

Done == pc = "done" /\ UNCHANGED vars

Next == \/ PullFromTail \/ TestMore \/ SelectArity \/ ArityError
        \/ \E i \in 1..MaxFix : BindFixed(i)
        \/ BindRest \/ EnterBody
        \/ \E lk \in LastKinds : Recur(lk)
        \/ Return \/ Done
Spec == Init /\ [][Next]_vars

(* ------------------------------ what TLC checks ------------------------------------ *)
(* exactly one outcome: however the machine interleaves pulling and testing, it ends in the outcome *)
(* of the declarative definition (deadlock checking is on: every case does end)                      *)
Exp == Outcome(sig, call)
OneOutcome ==
  /\ pc \in {"bind", "reject", "body", "done"} => sel = Exp.sel
  /\ (pc = "body" /\ iter = 0) => /\ bound = Exp.bound /\ rest = Exp.rest /\ ~Exp.err
  /\ pc = "done" => err = Exp.err
  /\ pc = "done" /\ ~err /\ iter = 0 => bound = Exp.bound /\ rest = Exp.rest
ErrorBeforeBody == (pc = "reject" \/ err) => entered = 0
BodyOnlyAfterBinding == entered > 0 => /\ sel.kind \in {"fixed", "variadic"}
                                       /\ Len(bound) = sel.n /\ rest # Unbound
BoundKnown == \A i \in 1..Len(bound) : iter = 0 => bound[i] <= Known        \* nothing is bound that was not realized
LazinessBound == realized <= RealizedBound(sig, call)
DepthConstant == /\ pc = "body" => depth = 1
                 /\ pc = "done" => depth = 0
RestNeverEmptySeq == rest.ty = "seq" => rest.from <= rest.to
EnteredOncePerIteration == pc = "body" => entered = iter + 1

(* ------------------------------ tables for the conformance driver -------------------- *)
SigJ(s) == [fixed |-> [i \in 0..MaxFix |-> IF i \in s.fixed THEN 1 ELSE 0], var |-> s.var]
EmitCase == (pc = "gather" /\ realized = 0 /\ ~tested /\ ended = (call.how # "apply")) =>
              PrintT(<<"TAB", ToJson([sig |-> SigJ(sig), call |-> call, exp |-> Exp,
                                       maxreal |-> RealizedBound(sig, call)])>>)
EmitRecur == (pc = "body" /\ iter = 1 /\ call.k = (IF sel.kind = "fixed" THEN sel.n ELSE sel.n + 1)) =>
              PrintT(<<"REC", ToJson([sig |-> SigJ(sig), sel |-> sel, last |-> lastk,
                                       bound |-> bound, rest |-> rest])>>)
Emit == EmitCase /\ EmitRecur
=====================================================================================
