\* negative job: a model in which :or also applies when the value present is nil must be rejected by OrExact
CONSTANTS Depth = 1  Wide = TRUE BWide = FALSE  OrOnNil = TRUE
SPECIFICATION Spec
INVARIANT OrExact
CHECK_DEADLOCK FALSE
