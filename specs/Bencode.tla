--------------------------------- MODULE Bencode ---------------------------------
(* C19 (bencode half) -- encode then decode is the identity on its domain, and        *)
(* decoding a concatenation of messages cut at ANY byte boundary yields exactly the   *)
(* complete messages in order plus the untouched remainder, never a partial message   *)
(* decoded as complete.                                                               *)
(*                                                                                    *)
(* A sender appends encoded messages to a wire; the network hands the receiver any    *)
(* number k >= 1 of further bytes (Deliver); the receiver decodes as many complete    *)
(* messages as its buffer holds (DecodeAll) and keeps the remainder.  Recv(k) is the  *)
(* nREPL server's loop body: Deliver(k) immediately followed by DecodeAll.            *)
(*                                                                                    *)
(* Bytes are small naturals (their ASCII codes, so that the dictionary key order is   *)
(* defined); byte 120 ('x') stands for the class "content byte that is no syntax" and *)
(* is concretised by the harness.  Messages are tagged records with all four fields   *)
(* always present (so that recorded values loaded from JSON compare with =).          *)
EXTENDS Integers, Sequences, FiniteSets, TLC, Json

CONSTANTS MaxMsgs,     \* streams of at most MaxMsgs messages
          UniSize,     \* the first UniSize messages of U form the universe
          Dev          \* "none", or the name of a decoder deviation (negative jobs)

Bi == 105  Bl == 108  Bd == 100  Be == 101  Colon == 58  Minus == 45  Bx == 120
D(n) == 48 + n
IsDigit(c) == c >= 48 /\ c <= 57

MInt(n)   == [ty |-> "int",  i |-> n, b |-> <<>>, xs |-> <<>>]
MStr(bs)  == [ty |-> "str",  i |-> 0, b |-> bs,   xs |-> <<>>]
MList(xs) == [ty |-> "list", i |-> 0, b |-> <<>>, xs |-> xs]
MDict(kv) == [ty |-> "dict", i |-> 0, b |-> <<>>, xs |-> kv]    \* kv = <<key1, val1, key2, val2, ...>>

(* ------------------------------ the domain ---------------------------------------- *)
RECURSIVE LexLess(_, _)
LexLess(s, t) == IF t = <<>> THEN FALSE
                 ELSE IF s = <<>> THEN TRUE
                 ELSE IF Head(s) # Head(t) THEN Head(s) < Head(t)
                 ELSE LexLess(Tail(s), Tail(t))

(* well-formed = in the domain of encode, in canonical form: dictionary keys are byte  *)
(* strings, pairwise different, in the order the encoder emits them (bytewise)          *)
RECURSIVE WF(_)
WF(m) == CASE m.ty = "int"  -> m.b = <<>> /\ m.xs = <<>>
           [] m.ty = "str"  -> m.i = 0 /\ m.xs = <<>> /\ \A k \in 1..Len(m.b) : m.b[k] \in 0..255
           [] m.ty = "list" -> m.i = 0 /\ m.b = <<>> /\ \A k \in 1..Len(m.xs) : WF(m.xs[k])
           [] m.ty = "dict" -> /\ m.i = 0 /\ m.b = <<>> /\ Len(m.xs) % 2 = 0
                               /\ \A k \in 1..Len(m.xs) : WF(m.xs[k])
                               /\ \A k \in 1..Len(m.xs) : k % 2 = 1 => m.xs[k].ty = "str"
                               /\ \A k \in 1..Len(m.xs) : (k % 2 = 1 /\ k + 2 <= Len(m.xs))
                                                              => LexLess(m.xs[k].b, m.xs[k + 2].b)
           [] OTHER -> FALSE

RECURSIVE Depth(_)
Depth(m) == IF m.ty \in {"int", "str"} \/ m.xs = <<>> THEN 0
            ELSE 1 + CHOOSE d \in 0..8 : /\ \E k \in 1..Len(m.xs) : Depth(m.xs[k]) = d
                                         /\ \A k \in 1..Len(m.xs) : Depth(m.xs[k]) <= d

(* The message universe.  Contents that look like syntax: 'e' ':' 'i' 'l' 'd' digits '-'. *)
U == <<
  MInt(0),
  MStr(<<Be>>),                                                       \* 1:e
  MList(<<MInt(-5), MStr(<<>>)>>),                                      \* li-5e0:e
  MDict(<<MStr(<<D(1)>>), MStr(<<Bi, D(1), Be>>), MStr(<<Bd>>), MList(<<>>)>>),   \* d1:13:i1e1:dlee
  MStr(<<>>),                                                         \* 0:
  MInt(-12),
  MStr(<<Bx, Be, Colon, Bi, Bl, Bd, D(4), Minus, D(0), Colon, Bx, Be>>),      \* 12:xe:ild4-0:xe
  MDict(<<>>),                                                        \* de
  MList(<<>>),                                                        \* le
  MInt(1005),
  MStr(<<D(1), Colon>>),                                              \* 2:1:
  MList(<<MList(<<MStr(<<Bl, Be>>)>>), MInt(0)>>),                       \* lll2:leeei0ee
  MDict(<<MStr(<<>>), MInt(0), MStr(<<Be>>), MDict(<<MStr(<<Be, Be>>), MStr(<<Be>>)>>)>>),  \* d0:i0e1:ed2:ee1:eee
  MStr(<<Bx>>),
  MInt(7),
  MList(<<MDict(<<MStr(<<Bx>>), MInt(-1)>>), MStr(<<D(0), Colon>>)>>),          \* ld1:xi-1ee2:0:e
  MDict(<<MStr(<<Be>>), MInt(3), MStr(<<Be, Bx>>), MStr(<<>>), MStr(<<Bx>>), MStr(<<Bd, Be>>)>>),
  MStr(<<Bi>>),
  MInt(-1),
  MDict(<<MStr(<<Bx, Bx>>), MDict(<<>>)>>)
>>
Universe == {U[j] : j \in 1..UniSize}

ASSUME UniSize \in 1..Len(U)
ASSUME \A j \in 1..Len(U) : WF(U[j]) /\ Depth(U[j]) <= 2
ASSUME Dev \in {"none", "AcceptShortString", "IntWithoutEnd", "DropRemainder"}

(* ------------------------------ Encode -------------------------------------------- *)
RECURSIVE Digits(_)
Digits(n) == IF n < 10 THEN <<D(n)>> ELSE Append(Digits(n \div 10), D(n % 10))

RECURSIVE Encode(_), EncodeAll(_)
Encode(m) == CASE m.ty = "int"  -> <<Bi>> \o (IF m.i < 0 THEN <<Minus>> \o Digits(-m.i) ELSE Digits(m.i)) \o <<Be>>
               [] m.ty = "str"  -> Digits(Len(m.b)) \o <<Colon>> \o m.b
               [] m.ty = "list" -> <<Bl>> \o EncodeAll(m.xs) \o <<Be>>
               [] m.ty = "dict" -> <<Bd>> \o EncodeAll(m.xs) \o <<Be>>
EncodeAll(ms) == IF ms = <<>> THEN <<>> ELSE Encode(Head(ms)) \o EncodeAll(Tail(ms))

(* ------------------------------ Decode -------------------------------------------- *)
(* DecAt(w, p): the value that starts at position p of w.  "incomplete": w ends before *)
(* the value does (more bytes may complete it); "bad": no continuation can.             *)
Ok(v, nx) == [st |-> "ok", v |-> v, nx |-> nx]
Inc == [st |-> "incomplete", v |-> MInt(0), nx |-> 0]
Bad == [st |-> "bad", v |-> MInt(0), nx |-> 0]

RECURSIVE ScanDigits(_, _)
ScanDigits(w, p) == IF p <= Len(w) /\ IsDigit(w[p]) THEN ScanDigits(w, p + 1) ELSE p
RECURSIVE NatOf(_, _, _)
NatOf(w, a, b) == IF a > b THEN 0 ELSE NatOf(w, a, b - 1) * 10 + (w[b] - 48)

DictShape(xs) == Len(xs) % 2 = 0 /\ \A k \in 1..Len(xs) : k % 2 = 1 => xs[k].ty = "str"

RECURSIVE DecAt(_, _), DecItems(_, _, _)
DecAt(w, p) ==
  IF p > Len(w) THEN Inc
  ELSE LET c == w[p] IN
    IF c = Bi THEN
      LET neg == p + 1 <= Len(w) /\ w[p + 1] = Minus
          q == IF neg THEN p + 2 ELSE p + 1
          r == ScanDigits(w, q)
          n == NatOf(w, q, r - 1)
      IN IF r > Len(w) THEN (IF Dev = "IntWithoutEnd" /\ r > q THEN Ok(MInt(IF neg THEN -n ELSE n), r) ELSE Inc)
         ELSE IF r = q \/ w[r] # Be THEN Bad
         ELSE Ok(MInt(IF neg THEN -n ELSE n), r + 1)
    ELSE IF IsDigit(c) THEN
      LET r == ScanDigits(w, p) IN
        IF r > Len(w) THEN Inc
        ELSE IF w[r] # Colon THEN Bad
        ELSE LET n == NatOf(w, p, r - 1)
                 avail == Len(w) - r
             IN IF avail >= n THEN Ok(MStr(SubSeq(w, r + 1, r + n)), r + n + 1)
                ELSE IF Dev = "AcceptShortString" /\ avail = n - 1
                       THEN Ok(MStr(SubSeq(w, r + 1, Len(w))), Len(w) + 1)   \* a truncated string passes as complete
                ELSE Inc
    ELSE IF c = Bl THEN DecItems(w, p + 1, <<>>)
    ELSE IF c = Bd THEN
      LET r == DecItems(w, p + 1, <<>>) IN
        IF r.st # "ok" THEN r
        ELSE IF DictShape(r.v.xs) THEN Ok(MDict(r.v.xs), r.nx) ELSE Bad
    ELSE Bad
DecItems(w, q, acc) ==
  IF q > Len(w) THEN Inc
  ELSE IF w[q] = Be THEN Ok(MList(acc), q + 1)
  ELSE LET r == DecAt(w, q) IN
         IF r.st # "ok" THEN r ELSE DecItems(w, r.nx, Append(acc, r.v))

(* Decode(w): the first message of w and the bytes after it; or "incomplete" with w untouched *)
Decode(w) == LET r == DecAt(w, 1) IN
               IF r.st = "ok" THEN [st |-> "ok", v |-> r.v, rest |-> SubSeq(w, r.nx, Len(w))]
               ELSE [st |-> r.st, v |-> MInt(0), rest |-> w]

(* DecodeAllOf(w) = <<complete messages of w in order, untouched remainder>> *)
RECURSIVE DecodeFrom(_, _, _)
DecodeFrom(w, p, acc) == LET r == DecAt(w, p) IN
                           IF r.st = "ok" THEN DecodeFrom(w, r.nx, Append(acc, r.v))
                           ELSE <<acc, IF Dev = "DropRemainder" THEN <<>> ELSE SubSeq(w, p, Len(w))>>
DecodeAllOf(w) == DecodeFrom(w, 1, <<>>)

(* ------------------------------ the machine --------------------------------------- *)
VARIABLES sent, wire, delivered, buf, got
vars == <<sent, wire, delivered, buf, got>>

Init == sent = <<>> /\ wire = <<>> /\ delivered = 0 /\ buf = <<>> /\ got = <<>>

Send(m) == /\ Len(sent) < MaxMsgs
           /\ sent' = Append(sent, m) /\ wire' = wire \o Encode(m)
           /\ UNCHANGED <<delivered, buf, got>>

Chunk(k) == SubSeq(wire, delivered + 1, delivered + k)

Deliver(k) == /\ delivered + k <= Len(wire)
              /\ buf' = buf \o Chunk(k) /\ delivered' = delivered + k
              /\ UNCHANGED <<sent, wire, got>>

DecodeAll == LET r == DecodeAllOf(buf) IN
               /\ r[1] # <<>>
               /\ got' = got \o r[1] /\ buf' = r[2]
               /\ UNCHANGED <<sent, wire, delivered>>

(* the receive loop of a server: take what the socket gives, decode all of it, keep the rest *)
Recv(k) == /\ delivered + k <= Len(wire)
           /\ LET r == DecodeAllOf(buf \o Chunk(k)) IN got' = got \o r[1] /\ buf' = r[2]
           /\ delivered' = delivered + k
           /\ UNCHANGED <<sent, wire>>

Next == \/ \E m \in Universe : Send(m)
        \/ \E k \in 1..(Len(wire) - delivered) : Deliver(k)
        \/ DecodeAll
Spec == Init /\ [][Next]_vars

(* the stream is fixed first, then cut in every way (generation job) *)
InitG == /\ sent \in [1..MaxMsgs -> Universe] /\ wire = EncodeAll(sent)
         /\ delivered = 0 /\ buf = <<>> /\ got = <<>>
NextG == Recv(1)      \* byte by byte: reaches the settled state at every cursor position

(* ------------------------------ properties ---------------------------------------- *)
TypeOK == /\ \A j \in 1..Len(sent) : sent[j] \in Universe
          /\ wire = EncodeAll(sent) /\ delivered \in 0..Len(wire)

GotIsPrefix == Len(got) <= Len(sent) /\ got = SubSeq(sent, 1, Len(got))

(* buf is exactly the undecoded suffix of what was delivered *)
BufIsRemainder == EncodeAll(got) \o buf = SubSeq(wire, 1, delivered)

Settled == DecAt(buf, 1).st # "ok"          \* DecodeAll has nothing left to do
AllDelivered == (delivered = Len(wire) /\ Settled) => (got = sent /\ buf = <<>>)

(* a settled buffer is a proper prefix of the next message: nothing partial was taken *)
NeverPartial == Settled => (Len(got) = Len(sent) \/ Len(buf) < Len(Encode(sent[Len(got) + 1])))

(* Decode(Encode(m) \o rest) = <<m, rest>>: for the message sent last (every message of the  *)
(* universe is the last one of some stream) and every buffer content as rest                *)
DecodeEncode == sent # <<>> =>
                  LET m == sent[Len(sent)] IN
                    /\ Decode(Encode(m) \o buf) = [st |-> "ok", v |-> m, rest |-> buf]
                    /\ Decode(Encode(m)) = [st |-> "ok", v |-> m, rest |-> <<>>]

(* every proper prefix of an encoding is incomplete (evaluated once per stream) *)
PrefixIncomplete == (sent # <<>> /\ delivered = 0) =>
                      LET e == Encode(sent[Len(sent)]) IN
                        \A n \in 0..(Len(e) - 1) : Decode(SubSeq(e, 1, n)).st = "incomplete"

(* ------------------------------ emission ------------------------------------------ *)
(* Generation job (InitG/NextG): one STR line per stream and one EDG line per settled     *)
(* state (stream, cursor) with EVERY Recv edge leaving it.  Written as an INVARIANT that  *)
(* is always TRUE (TLC evaluates invariants once per distinct state).  Edge k is          *)
(* (buf, chunk = first k bytes of tail); it is printed compactly as                        *)
(*   <<n = number of messages DecodeAllOf(buf \o chunk) yields, r = length of its          *)
(*     remainder, c = 1 iff those messages are the first n of ms and the remainder is the  *)
(*     last r bytes of buf \o chunk>>                                                      *)
(* (the driver treats c # 1 as a failure of the machinery).  l1 = length of the encoding   *)
(* of the first message of ms: Decode(w) is by definition the first step of DecodeAllOf(w).*)
EmitG ==
  /\ (delivered = 0) =>
       PrintT(<<"STR", ToJson([sent |-> sent, enc |-> [j \in 1..Len(sent) |-> Encode(sent[j])]])>>)
  /\ (delivered < Len(wire)) =>
       LET tail == SubSeq(wire, delivered + 1, Len(wire))
           ms == DecodeAllOf(buf \o tail)[1]
       IN PrintT(<<"EDG", ToJson([
            buf |-> buf, tail |-> tail, ms |-> ms, l1 |-> Len(Encode(ms[1])),
            e |-> [k \in 1..Len(tail) |->
                    LET w == buf \o SubSeq(tail, 1, k)
                        r == DecodeAllOf(w)
                    IN <<Len(r[1]), Len(r[2]),
                         IF /\ r[1] = SubSeq(ms, 1, Len(r[1]))
                            /\ r[2] = SubSeq(w, Len(w) - Len(r[2]) + 1, Len(w))
                            /\ (r[1] = <<>> <=> Decode(w).st = "incomplete")
                         THEN 1 ELSE 0>>]])>>)
===================================================================================
