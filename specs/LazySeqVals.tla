------------------------------- MODULE LazySeqVals -------------------------------
(* C06 -- values and the meaning of the consumer operations, shared by LazySeq (required), *)
(* LazySeqImpl (as built) and the trace specifications.                                     *)
EXTENDS Integers

CONSTANTS Threads,      \* consumer threads (positive integers)
          N             \* number of cells; cell N is the end of the sequence

(* ---- values: tagged records --------------------------------------------------------- *)
NilV     == [ty |-> "nil",   i |-> 0]
IntV(i)  == [ty |-> "int",   i |-> i]     \* element of cell i / a count
CellV(c) == [ty |-> "cell",  i |-> c]     \* the (possibly unrealized) handle of cell c: result of rest
SeqV(c)  == [ty |-> "seq",   i |-> c]     \* a non-empty realized seq starting at cell c: result of seq/next
EmptyV   == [ty |-> "empty", i |-> 0]     \* the empty seq: rest of the end
ExcV     == [ty |-> "exc",   i |-> 0]     \* the producer's exception, propagated
RefusedV == [ty |-> "exc",   i |-> 1]     \* a re-entrant access refused with some other error

Ops == {"first", "seq", "rest", "next", "count"}

(* what op(c) does after having looked at cell k and found it empty (e) or not:          *)
(* continue at cell .cur (0: finished with result .res)                                   *)
Walk(op, c, k, e) ==
  CASE op = "first" -> [cur |-> 0, res |-> IF e THEN NilV ELSE IntV(k)]
    [] op = "seq"   -> [cur |-> 0, res |-> IF e THEN NilV ELSE SeqV(k)]
    [] op = "rest"  -> [cur |-> 0, res |-> IF e THEN EmptyV ELSE CellV(k + 1)]
    [] op = "next"  -> IF k = c THEN (IF e THEN [cur |-> 0, res |-> NilV] ELSE [cur |-> k + 1, res |-> NilV])
                                ELSE [cur |-> 0, res |-> IF e THEN NilV ELSE SeqV(k)]
    [] op = "count" -> IF e THEN [cur |-> 0, res |-> IntV(k - c)] ELSE [cur |-> k + 1, res |-> NilV]

===================================================================================
