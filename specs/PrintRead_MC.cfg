CONSTANTS
  StrLen = 2
  Depth = 1
  Dev = {}
SPECIFICATION Spec
INVARIANT RoundTrip
INVARIANT Idempotent
CONSTRAINT EmitV
CHECK_DEADLOCK FALSE
