------------------------------ MODULE Bencode_Trace ------------------------------
(* C19, code -> spec.  Batch validation of what the REAL code did with byte streams     *)
(* produced by the real encoder and cut at recorded positions.  One trace =              *)
(*   [id, via, sent (abstract messages), wire (bytes the real encode produced),          *)
(*    steps: <<[k, msgs, rest, resp]>>]                                                  *)
(* Step j hands the next k bytes to the receiver (Bencode!Recv).                         *)
(*   via = "loop":   the accumulate-and-decode step (pending + decode-all) reported the  *)
(*                   decoded messages msgs and the remainder rest it kept;               *)
(*   via = "server": the real nREPL connection handler (on-connect, fake socket) sent    *)
(*                   the responses resp; every request is a dict {"id" m, "op" "z"} and   *)
(*                   the server answers {"id" m, "status" ["error" "unknown-op" "done"]}  *)
(*                   per decoded request, so resp shows which requests it decoded.       *)
(* A trace is accepted iff every step agrees with Recv on the specification's own buffer,*)
(* the real wire equals EncodeAll(sent) and, at the end, got = sent with an empty buffer.*)
EXTENDS Integers, Sequences, FiniteSets, TLC, Json, IOUtils

Traces == JsonDeserialize(IOEnv.TRACE_FILE)
MaxMsgs == 0
UniSize == 1
Dev == "none"
VARIABLES sent, wire, delivered, buf, got, tid, step
INSTANCE Bencode
tvars == <<sent, wire, delivered, buf, got, tid, step>>

Tr == Traces[tid]

InitT == /\ tid \in 1..Len(Traces) /\ step = 0
         /\ sent = Traces[tid].sent /\ wire = Traces[tid].wire
         /\ delivered = 0 /\ buf = <<>> /\ got = <<>>

(* the response of the server to a decoded request q = {"id" v, "op" ..}: {"id" v, "status" [...]} *)
StatusTail == <<54, 58, 115, 116, 97, 116, 117, 115, 108,                      \* 6:statusl
                53, 58, 101, 114, 114, 111, 114,                               \* 5:error
                49, 48, 58, 117, 110, 107, 110, 111, 119, 110, 45, 111, 112,   \* 10:unknown-op
                52, 58, 100, 111, 110, 101, 101>>                              \* 4:donee
IdKey == MStr(<<105, 100>>)
ResponseTo(q) == IF q.ty = "dict" /\ Len(q.xs) >= 2 /\ q.xs[1] = IdKey
                 THEN <<Bd>> \o Encode(IdKey) \o Encode(q.xs[2]) \o StatusTail \o <<Be>>
                 ELSE <<>>

StepT == /\ step < Len(Tr.steps)
         /\ LET s == Tr.steps[step + 1] IN
              /\ Recv(s.k)
              /\ IF Tr.via = "loop"
                 THEN got' = got \o s.msgs /\ buf' = s.rest
                 ELSE LET r == DecodeAllOf(buf \o Chunk(s.k))[1] IN
                        s.resp = [j \in 1..Len(r) |-> ResponseTo(r[j])]
         /\ step' = step + 1 /\ UNCHANGED tid

Finished == step = Len(Tr.steps) /\ delivered = Len(wire) /\ wire = EncodeAll(sent)
            /\ got = sent /\ buf = <<>>
Accept == Finished => PrintT(<<"ACC", Tr.id>>)

(* diagnosis of rejected traces (separate run on those only): how far each one got and    *)
(* what the specification prescribes for the step that follows                              *)
Diag == PrintT(<<"PFX", ToJson([
          id |-> Tr.id, step |-> step, enc |-> (wire = EncodeAll(sent)),
          exp |-> IF step < Len(Tr.steps) /\ delivered + Tr.steps[step + 1].k <= Len(wire)
                  THEN LET r == DecodeAllOf(buf \o Chunk(Tr.steps[step + 1].k)) IN
                         [msgs |-> r[1], rest |-> r[2], resp |-> [j \in 1..Len(r[1]) |-> ResponseTo(r[1][j])]]
                  ELSE [msgs |-> <<>>, rest |-> <<>>, resp |-> <<>>]])>>)
===================================================================================
