CONSTANTS Threads <- T3  Progs <- SmallProgs  InitVal <- MCInit  Validator = "lt3"  Watching = TRUE
          CasIdentityFirst = TRUE  UseLock = TRUE
SPECIFICATION Spec
INVARIANT SameValue
INVARIANT ResultsTruthful
INVARIANT WatchIsTransition
INVARIANT ValidAlways
INVARIANT LockDiscipline
PROPERTY Termination
