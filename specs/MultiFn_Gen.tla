------------------------------- MODULE MultiFn_Gen -------------------------------
(* C18, spec -> code: histories of the required specification MultiFn.tla.             *)
(* One line per node of the history tree (prefix sharing on the TLC side): the path,   *)
(* the result of the last mutator, the abstract state, the set of allowed outcomes of  *)
(* a call for EVERY dispatch value in that state and -- after a change of the          *)
(* hierarchy -- what parents / ancestors / descendants / isa? must answer.             *)
(* Exhaustive to MaxDepth (GNext, Prune = TRUE: mutators that neither change the state  *)
(* nor raise are left out) or `-simulate` (GNextSim, Prune = FALSE).  The simulator     *)
(* evaluates every successor of a state before it picks one, so a random step is split  *)
(* in two: choose the action (nxt; cheap successors), then perform it (one successor,   *)
(* the only one that is printed).                                                       *)
EXTENDS MultiFn, MultiFn_U, Json

CONSTANTS MaxDepth, Prune
VARIABLES path, res, nxt
gvars == <<methods, prefers, parents, path, res>>

Act(a, x, y) == [a |-> a, x |-> x, y |-> y]
Step(a, x, y, r) == path' = Append(path, Act(a, x, y)) /\ res' = r

NoAct == Act("", "", "")
GInit == Init /\ path = <<>> /\ res = "ok" /\ nxt = NoAct

GAdd(dv) == (Prune => dv \notin methods) /\ AddMethod(dv) /\ Step("add", dv, "", "ok")
GRemove(dv) == (Prune => dv \in methods) /\ RemoveMethod(dv) /\ Step("remove", dv, "", "ok")
GRemoveAll == (Prune => methods # {}) /\ RemoveAll /\ Step("removeall", "", "", "ok")
GPrefer(x, y) == /\ Prune => <<x, y>> \notin prefers
                 /\ Prefer(x, y)
                 /\ Step("prefer", x, y, IF PreferErr(prefers, x, y) THEN "err" ELSE "ok")
GDerive(t, p) == /\ Prune => <<t, p>> \notin parents
                 /\ Derive(t, p)
                 /\ Step("derive", t, p, IF DeriveErr(parents, t, p) THEN "err" ELSE "ok")
GUnderive(t, p) == (Prune => <<t, p>> \in parents) /\ Underive(t, p) /\ Step("underive", t, p, "ok")

Acts == {Act("add", dv, "") : dv \in DV} \cup {Act("remove", dv, "") : dv \in DV} \cup {Act("removeall", "", "")}
        \cup {Act("prefer", e[1], e[2]) : e \in PrefPairs}
        \cup {Act("derive", e[1], e[2]) : e \in Edges} \cup {Act("underive", e[1], e[2]) : e \in Edges}
Do(A) == CASE A.a = "add" -> GAdd(A.x)
           [] A.a = "remove" -> GRemove(A.x)
           [] A.a = "removeall" -> GRemoveAll
           [] A.a = "prefer" -> GPrefer(A.x, A.y)
           [] A.a = "derive" -> GDerive(A.x, A.y)
           [] A.a = "underive" -> GUnderive(A.x, A.y)

GNext == Len(path) < MaxDepth /\ (\E A \in Acts : Do(A)) /\ nxt' = nxt
GNextSim == IF nxt = NoAct
              THEN Len(path) < MaxDepth /\ nxt' \in Acts /\ UNCHANGED gvars
              ELSE Do(nxt) /\ nxt' = NoAct

HierObs == LET AF == AncF(parents) IN
  [par |-> [x \in Atoms |-> Parents(parents, x)],
   anc |-> AF,
   dmin |-> [t \in Tags |-> DescMin(parents, t)],
   dmax |-> [t \in Tags |-> DescMax(parents, t)],
   isa |-> [x \in DV |-> {y \in DV : x # y /\ IsaF(AF, x, y)}],
   u |-> [vecs |-> VecElems, bases |-> Bases, dflt |-> Dflt, tags |-> Tags, classes |-> Classes]]
HierChanged == path = <<>> \/ path[Len(path)].a \in {"derive", "underive"}

Node == LET AF == AncF(parents) IN
  [p |-> path, r |-> res,
   m |-> methods, pf |-> prefers, pa |-> parents,
   req |-> [dv \in DV |-> AllowedF(methods, prefers, AF, dv)],
   hier |-> IF HierChanged THEN HierObs ELSE [same |-> TRUE]]
Emit == nxt = NoAct => PrintT(<<"NODE", ToJson(Node)>>)
=====================================================================================
