-------------------------------- MODULE DeferredImpl --------------------------------
(* C13 -- delay, promise and future as built (lang/delay.py, promise.py, futures.py over      *)
(* lang/atom.py, threading.Condition and concurrent.futures), one action per step.            *)
(*                                                                                          *)
(*   delay    the state record [computed, value] lives in an Atom; deref = Atom.swap(__deref): *)
(*            read the state, if not computed RUN THE BODY, compare-and-set under the atom's    *)
(*            lock, on failure start over.  DelayGuarded = TRUE is the repaired mechanism (a    *)
(*            fast path that reads the state, then the whole swap under the delay's own lock);  *)
(*            DelayGuarded = FALSE is the pinned tree (Dev_DelayBodyInRetryLoop).               *)
(*   promise  Condition + flag + value: deliver = lock, check flag, set flag, set value,        *)
(*            notify, unlock; deref = lock, wait_for(flag, timeout), value | timeout value.      *)
(*            DeliverChecks = FALSE / UseLock = FALSE are mutants the design check must reject.  *)
(*   future   the worker sets RUNNING, runs the body, stores the outcome under the future's      *)
(*            condition and notifies; deref = lock, finished? outcome : wait(timeout), finished? *)
(*            outcome : TimeoutError; the wrapper turns TimeoutError into the timeout value.     *)
(*            FutureSwallows = TRUE is the pinned tree (every TimeoutError, also one raised by   *)
(*            the body: Dev_FutureSwallowsTimeoutError); FALSE is the repaired wrapper (asks     *)
(*            done() before believing the TimeoutError).                                         *)
(*                                                                                          *)
(* The required specification (Deferred.tla: obj, pend) runs in lock step: at each point where  *)
(* the mechanism is supposed to take effect the abstract step is taken; when the abstract step  *)
(* is NOT enabled the name of the violated clause is recorded in `viol` (simulation failure).   *)
(* Devs = the named deviations the abstract side is allowed to use.                             *)
EXTENDS Integers, Sequences, FiniteSets, TLC

CONSTANTS Threads, Configs, Devs,
          DelayGuarded, DeliverChecks, UseLock, FutureSwallows
(* Configs: set of [kind, progs, outs] -- which object, the programs a thread may run, the outcome of the     *)
(* k-th run of the body (the last entry repeats); one is chosen initially (variable conf, never changes).        *)

VARIABLES conf,                         \* the configuration of this behaviour
          obj, pend,                  \* required specification
          viol,                       \* clauses of the required specification the mechanism broke
          cdone, cval,                \* the cell as built: computed / delivered / finished flag, value or outcome
          lock, dlock, gen,           \* atom lock | condition lock (owner, 0 = free); delay's own lock; notifications
          nruns,                      \* runs of the body started so far
          pc, prog, cur, new, ires, myg,   \* per thread
          wpc                         \* the executor's worker (future)
INSTANCE Deferred
vars == <<conf, obj, pend, viol, cdone, cval, lock, dlock, gen, nruns, pc, prog, cur, new, ires, myg, wpc>>

Kind == conf.kind
Progs == conf.progs
BodyOuts == conf.outs
W == 99                               \* lock owner id of the worker
Out(k) == BodyOuts[IF k <= Len(BodyOuts) THEN k ELSE Len(BodyOuts)]

(* take the abstract step A if it is enabled, otherwise record the violated clause *)
AbsOr(en, A, clause) == IF en THEN A /\ viol' = viol
                              ELSE UNCHANGED <<obj, pend>> /\ viol' = viol \cup {clause}
Abs0 == UNCHANGED <<obj, pend, viol>>

(* a thread that may not start with an untimed deref nobody will ever satisfy *)
HasDeliver(p) == \E i \in 1..Len(p) : p[i].op = "deliver" /\ \A j \in 1..(i - 1) : ~(p[j].op = "deref" /\ ~p[j].timed)
Feasible(f) == Kind = "promise" => \E t \in Threads : HasDeliver(f[t])

Init == /\ conf \in Configs
        /\ DInit(Kind) /\ viol = {}
        /\ cdone = FALSE /\ cval = NilV /\ lock = 0 /\ dlock = 0 /\ gen = 0 /\ nruns = 0
        /\ prog \in {f \in [Threads -> Progs] : Feasible(f)}
        /\ pc = [t \in Threads |-> "idle"]
        /\ cur = [t \in Threads |-> FALSE]
        /\ new = [t \in Threads |-> NilV]
        /\ ires = [t \in Threads |-> NilV]
        /\ myg = [t \in Threads |-> 0]
        /\ wpc = IF Kind = "future" THEN "w_acq1" ELSE "w_done"

Goto(t, p) == pc' = [pc EXCEPT ![t] = p]
Res(t, r) == ires' = [ires EXCEPT ![t] = r]
Free == lock = 0
LockFree == UseLock => lock = 0
Take(t) == lock' = IF UseLock THEN t ELSE lock
Drop == lock' = IF UseLock THEN 0 ELSE lock

Call(t) == /\ pc[t] = "idle" /\ prog[t] # <<>>
           /\ LET c == Head(prog[t]) IN
                /\ DCall(t, c) /\ viol' = viol
                /\ Goto(t, CASE c.op = "realized" -> "r_acq"
                             [] c.op = "deliver" -> "p_acq"
                             [] c.op = "deref" /\ Kind = "delay" -> IF DelayGuarded THEN "g_fast" ELSE "d_read"
                             [] OTHER -> "q_acq")
           /\ prog' = [prog EXCEPT ![t] = Tail(@)]
           /\ UNCHANGED <<cdone, cval, lock, dlock, gen, nruns, cur, new, ires, myg, wpc>>

(* ---- realized?: the flag is read under the lock ------------------------------------------------ *)
RAcq(t) == /\ pc[t] = "r_acq" /\ LockFree /\ Take(t) /\ Goto(t, "r_read") /\ Abs0
           /\ UNCHANGED <<cdone, cval, dlock, gen, nruns, prog, cur, new, ires, myg, wpc>>
RRead(t) == /\ pc[t] = "r_read" /\ Res(t, BoolV(cdone)) /\ Goto(t, "r_rel")
            /\ AbsOr(LinEn(t), DLin(t), "LinOrder")
            /\ UNCHANGED <<cdone, cval, lock, dlock, gen, nruns, prog, cur, new, myg, wpc>>
RRel(t) == /\ pc[t] = "r_rel" /\ Drop /\ Goto(t, "ret") /\ Abs0
           /\ UNCHANGED <<cdone, cval, dlock, gen, nruns, prog, cur, new, ires, myg, wpc>>

(* ---- delay ---------------------------------------------------------------------------------- *)
(* repaired mechanism only: fast path (Atom.deref: one step when the atom lock is free), then the delay's lock *)
GFast(t) == /\ pc[t] = "g_fast" /\ Free
            /\ IF cdone THEN /\ Res(t, cval) /\ Goto(t, "ret") /\ AbsOr(LinEn(t), DLin(t), "LinOrder")
                        ELSE /\ Goto(t, "g_lock") /\ Abs0 /\ ires' = ires
            /\ UNCHANGED <<cdone, cval, lock, dlock, gen, nruns, prog, cur, new, myg, wpc>>
GLock(t) == /\ pc[t] = "g_lock" /\ dlock = 0 /\ dlock' = t /\ Goto(t, "d_read") /\ Abs0
            /\ UNCHANGED <<cdone, cval, lock, gen, nruns, prog, cur, new, ires, myg, wpc>>
(* oldval = self._state (no lock) *)
DRead(t) == /\ pc[t] = "d_read"
            /\ cur' = [cur EXCEPT ![t] = cdone]
            /\ IF cdone THEN new' = [new EXCEPT ![t] = cval] /\ Goto(t, "d_acq")
                        ELSE new' = new /\ Goto(t, "d_bstart")
            /\ Abs0 /\ UNCHANGED <<cdone, cval, lock, dlock, gen, nruns, prog, ires, myg, wpc>>
(* the body is entered ... *)
DBStart(t) == /\ pc[t] = "d_bstart"
              /\ nruns' = nruns + 1
              /\ new' = [new EXCEPT ![t] = Out(nruns + 1)]
              /\ IF BodyStartEn(t) THEN DBodyStart(t) /\ viol' = viol
                 ELSE AbsOr(DevStartEn(t), DevBodyStart(t), "DelayOnce")
              /\ Goto(t, "d_bend")
              /\ UNCHANGED <<cdone, cval, lock, dlock, gen, prog, cur, ires, myg, wpc>>
(* ... and left: by return (then the new state record is built) or by an exception (leaves swap and deref) *)
DBEnd(t) == /\ pc[t] = "d_bend"
            /\ AbsOr(BodyEndEn(t), DBodyEnd(t, new[t], FALSE), "DelayRun")
            /\ IF IsExc(new[t]) THEN Res(t, new[t]) /\ Goto(t, IF DelayGuarded THEN "g_unlock" ELSE "ret")
                                ELSE ires' = ires /\ Goto(t, "d_acq")
            /\ UNCHANGED <<cdone, cval, lock, dlock, gen, nruns, prog, cur, new, myg, wpc>>
DAcq(t) == /\ pc[t] = "d_acq" /\ Free /\ lock' = t /\ Goto(t, "d_cmp") /\ Abs0
           /\ UNCHANGED <<cdone, cval, dlock, gen, nruns, prog, cur, new, ires, myg, wpc>>
(* state records compare by value: the state read matches the current one iff both (not) computed *)
DCmp(t) == /\ pc[t] = "d_cmp" /\ Goto(t, IF cur[t] = cdone THEN "d_set" ELSE "d_relf") /\ Abs0
           /\ UNCHANGED <<cdone, cval, lock, dlock, gen, nruns, prog, cur, new, ires, myg, wpc>>
DSet(t) == /\ pc[t] = "d_set"
           /\ cdone' = TRUE /\ cval' = new[t] /\ Res(t, new[t])
           /\ IF cur[t] THEN AbsOr(LinEn(t), DLin(t), "LinOrder")
                        ELSE AbsOr(PublishEn(t), DPublish(t), "DelayRun")
           /\ Goto(t, "d_relk")
           /\ UNCHANGED <<lock, dlock, gen, nruns, prog, cur, new, myg, wpc>>
DRel(t) == /\ pc[t] \in {"d_relk", "d_relf"} /\ lock' = 0 /\ Abs0
           /\ Goto(t, IF pc[t] = "d_relf" THEN "d_read" ELSE IF DelayGuarded THEN "g_unlock" ELSE "ret")
           /\ UNCHANGED <<cdone, cval, dlock, gen, nruns, prog, cur, new, ires, myg, wpc>>
GUnlock(t) == /\ pc[t] = "g_unlock" /\ dlock' = 0 /\ Goto(t, "ret") /\ Abs0
              /\ UNCHANGED <<cdone, cval, lock, gen, nruns, prog, cur, new, ires, myg, wpc>>

(* ---- promise: deliver --------------------------------------------------------------------- *)
PAcq(t) == /\ pc[t] = "p_acq" /\ LockFree /\ Take(t) /\ Goto(t, "p_chk") /\ Abs0
           /\ UNCHANGED <<cdone, cval, dlock, gen, nruns, prog, cur, new, ires, myg, wpc>>
(* the deliver takes effect where the flag is tested *)
PChk(t) == /\ pc[t] = "p_chk" /\ Res(t, NilV)
           /\ AbsOr(LinEn(t), DLin(t), "LinOrder")
           /\ Goto(t, IF DeliverChecks /\ cdone THEN "p_rel" ELSE "p_flag")
           /\ UNCHANGED <<cdone, cval, lock, dlock, gen, nruns, prog, cur, new, myg, wpc>>
PFlag(t) == /\ pc[t] = "p_flag" /\ cdone' = TRUE /\ Goto(t, "p_val") /\ Abs0
            /\ UNCHANGED <<cval, lock, dlock, gen, nruns, prog, cur, new, ires, myg, wpc>>
PVal(t) == /\ pc[t] = "p_val" /\ cval' = pend[t].a /\ Goto(t, "p_ntf") /\ Abs0
           /\ UNCHANGED <<cdone, lock, dlock, gen, nruns, prog, cur, new, ires, myg, wpc>>
PNtf(t) == /\ pc[t] = "p_ntf" /\ gen' = gen + 1 /\ Goto(t, "p_rel") /\ Abs0
           /\ UNCHANGED <<cdone, cval, lock, dlock, nruns, prog, cur, new, ires, myg, wpc>>
PRel(t) == /\ pc[t] = "p_rel" /\ Drop /\ Goto(t, "ret") /\ Abs0
           /\ UNCHANGED <<cdone, cval, dlock, gen, nruns, prog, cur, new, ires, myg, wpc>>

(* ---- promise / future: deref = lock, test, wait (lock released), lock again, test ------------ *)
(* the outcome is handed out: a value, or (future) the exception the body raised *)
Get(t) == IF Kind = "future" /\ FutureSwallows /\ cval = ExcV(2)
            THEN /\ Res(t, IF pend[t].timed THEN TovV ELSE NilV)
                 /\ IF SwallowEn(t) THEN DevSwallow(t) /\ viol' = viol ELSE AbsOr(LinEn(t), DLin(t), "LinOrder")
            ELSE /\ Res(t, cval)
                 /\ AbsOr(LinEn(t), DLin(t), "LinOrder")
GiveUp(t) == Res(t, TovV) /\ AbsOr(ExpireEn(t), DExpire(t), "TimedDeref")

QAcq(t) == /\ pc[t] \in {"q_acq", "q_reacq", "f_dacq"} /\ LockFree /\ Take(t) /\ Abs0
           /\ Goto(t, CASE pc[t] = "q_acq" -> "q_chk" [] pc[t] = "q_reacq" -> "q_chk2" [] OTHER -> "f_dchk")
           /\ UNCHANGED <<cdone, cval, dlock, gen, nruns, prog, cur, new, ires, myg, wpc>>
QChk(t) == /\ pc[t] = "q_chk"
           /\ IF cdone THEN Get(t) /\ Goto(t, "q_rel") ELSE Abs0 /\ ires' = ires /\ Goto(t, "q_wait")
           /\ UNCHANGED <<cdone, cval, lock, dlock, gen, nruns, prog, cur, new, myg, wpc>>
QWait(t) == /\ pc[t] = "q_wait" /\ Drop /\ myg' = [myg EXCEPT ![t] = gen] /\ Goto(t, "q_blocked") /\ Abs0
            /\ UNCHANGED <<cdone, cval, dlock, gen, nruns, prog, cur, new, ires, wpc>>
(* woken by a notification, or (timed) the deadline passes: the scheduler's choice *)
QWake(t) == /\ pc[t] = "q_blocked" /\ (gen # myg[t] \/ pend[t].timed) /\ Goto(t, "q_reacq") /\ Abs0
            /\ UNCHANGED <<cdone, cval, lock, dlock, gen, nruns, prog, cur, new, ires, myg, wpc>>
QChk2(t) == /\ pc[t] = "q_chk2"
            /\ IF cdone THEN Get(t) /\ Goto(t, "q_rel")
               ELSE IF ~pend[t].timed THEN Abs0 /\ ires' = ires /\ Goto(t, "q_wait")
               ELSE IF Kind = "future" /\ ~FutureSwallows
                      THEN Abs0 /\ ires' = ires /\ Goto(t, "f_torel")      \* TimeoutError reaches the repaired wrapper
                      ELSE GiveUp(t) /\ Goto(t, "q_rel")
            /\ UNCHANGED <<cdone, cval, lock, dlock, gen, nruns, prog, cur, new, myg, wpc>>
QRel(t) == /\ pc[t] \in {"q_rel", "f_torel"} /\ Drop /\ Goto(t, IF pc[t] = "q_rel" THEN "ret" ELSE "f_dacq") /\ Abs0
           /\ UNCHANGED <<cdone, cval, dlock, gen, nruns, prog, cur, new, ires, myg, wpc>>
(* repaired wrapper: believe the TimeoutError only if the future is still not done *)
FDChk(t) == /\ pc[t] = "f_dchk"
            /\ IF cdone THEN Get(t) ELSE GiveUp(t)
            /\ Goto(t, "q_rel")
            /\ UNCHANGED <<cdone, cval, lock, dlock, gen, nruns, prog, cur, new, myg, wpc>>

(* ---- future: the worker ----------------------------------------------------------------------- *)
WStep == /\ wpc # "w_done"
         /\ CASE wpc = "w_acq1" -> (Free /\ lock' = W /\ wpc' = "w_run" /\ Abs0 /\ UNCHANGED <<cdone, cval, gen, nruns>>)
              [] wpc = "w_run" -> (wpc' = "w_rel1" /\ Abs0 /\ UNCHANGED <<cdone, cval, gen, nruns, lock>>)
              [] wpc = "w_rel1" -> (lock' = 0 /\ wpc' = "w_bstart" /\ Abs0 /\ UNCHANGED <<cdone, cval, gen, nruns>>)
              [] wpc = "w_bstart" -> (/\ nruns' = nruns + 1 /\ wpc' = "w_bend"
                                      /\ AbsOr(FStartEn, FBodyStart, "FutureRun") /\ UNCHANGED <<cdone, cval, gen, lock>>)
              [] wpc = "w_bend" -> (/\ wpc' = "w_acq2" /\ AbsOr(FEndEn, FBodyEnd(Out(1)), "FutureRun")
                                    /\ UNCHANGED <<cdone, cval, gen, nruns, lock>>)
              [] wpc = "w_acq2" -> (Free /\ lock' = W /\ wpc' = "w_set" /\ Abs0 /\ UNCHANGED <<cdone, cval, gen, nruns>>)
              [] wpc = "w_set" -> (/\ cdone' = TRUE /\ cval' = Out(1) /\ gen' = gen + 1 /\ wpc' = "w_rel2"
                                   /\ AbsOr(FPublishEn, FPublish, "FutureRun") /\ UNCHANGED <<nruns, lock>>)
              [] wpc = "w_rel2" -> (lock' = 0 /\ wpc' = "w_done" /\ Abs0 /\ UNCHANGED <<cdone, cval, gen, nruns>>)
         /\ UNCHANGED <<dlock, pc, prog, cur, new, ires, myg>>

(* ---- return ------------------------------------------------------------------------------------ *)
ResClause == CASE Kind = "delay" -> "DelaySameValue" [] Kind = "promise" -> "PromiseValue" [] OTHER -> "FutureOutcome"
Return(t) == /\ pc[t] = "ret"
             /\ IF RetEn(t, ires[t]) THEN DRet(t, ires[t]) /\ viol' = viol
                ELSE /\ pend' = [pend EXCEPT ![t] = None] /\ obj' = obj /\ viol' = viol \cup {ResClause}
             /\ Goto(t, "idle")
             /\ UNCHANGED <<cdone, cval, lock, dlock, gen, nruns, prog, cur, new, ires, myg, wpc>>

Step0(t) == \/ Call(t) \/ Return(t) \/ RAcq(t) \/ RRead(t) \/ RRel(t)
           \/ GFast(t) \/ GLock(t) \/ DRead(t) \/ DBStart(t) \/ DBEnd(t) \/ DAcq(t) \/ DCmp(t) \/ DSet(t) \/ DRel(t)
           \/ GUnlock(t)
           \/ PAcq(t) \/ PChk(t) \/ PFlag(t) \/ PVal(t) \/ PNtf(t) \/ PRel(t)
           \/ QAcq(t) \/ QChk(t) \/ QWait(t) \/ QWake(t) \/ QChk2(t) \/ QRel(t) \/ FDChk(t)
Step(t) == Step0(t) /\ conf' = conf
WorkerStep == WStep /\ conf' = conf
AllDone == wpc = "w_done" /\ \A t \in Threads : pc[t] = "idle" /\ prog[t] = <<>>
Next == (\E t \in Threads : Step(t)) \/ WorkerStep \/ (AllDone /\ UNCHANGED vars)
Spec == Init /\ [][Next]_vars /\ WF_vars(WorkerStep) /\ \A t \in Threads : WF_vars(Step(t))

(* ---- what TLC checks ---------------------------------------------------------------------------- *)
DelayOnce == "DelayOnce" \notin viol /\ "DelayRun" \notin viol      \* every run of the body is one the spec allows
DelayOnceStrict == DelayOnceInv                                        \* (only meaningful with Devs = {})
DelaySameValue == "DelaySameValue" \notin viol
PromiseValue == "PromiseValue" \notin viol
FutureOutcome == "FutureOutcome" \notin viol /\ "FutureRun" \notin viol
TimedDeref == "TimedDeref" \notin viol
LinOrder == "LinOrder" \notin viol
(* at rest the cell holds what the specification says *)
Busy == \E t \in Threads : pc[t] \in {"p_chk", "p_flag", "p_val", "p_ntf", "p_rel"}
FirstDeliverWins == (Kind = "promise" /\ ~Busy) => (cdone = (obj.st = "done") /\ (cdone => cval = obj.val))
CellAgrees == Kind # "promise" => (cdone = (obj.st = "done") /\ (cdone => cval = obj.val))
RealizedMonotone == [][(cdone => cdone') /\ RealizedMonotoneAct /\ ValueStableAct]_vars
Termination == <>[]AllDone
=====================================================================================
