CONSTANTS
  Alphabet <- AlphaD
  MaxLen = 0
  DetailLen = 0
  CRIsNewline = TRUE
SPECIFICATION SpecT
CONSTRAINT Report
CHECK_DEADLOCK FALSE
