CONSTANTS Threads <- T2  Progs <- GenProgs  InitVal <- MCInit  Validator = "none"  Watching = TRUE
          CasIdentityFirst = TRUE  UseLock = TRUE
SPECIFICATION GSpec
CONSTRAINT Emit
CHECK_DEADLOCK FALSE
