----------------------------------- MODULE Arith -----------------------------------
(* C20 -- integer and ratio arithmetic is exact; quot / rem / mod obey their identities;  *)
(* the type of a mixed result depends only on the operand types.                          *)
(*                                                                                      *)
(* A number is [k, n, d]: representation k in {int, ratio, dec, float}, value n/d in       *)
(* lowest terms with d > 0.  Floats and decimals of the universe are exactly representable *)
(* (dyadic / terminating), so their values can be compared exactly too.                    *)
(*                                                                                      *)
(* Machine: one state per (a, b, op); the identities are invariants; the expected result   *)
(* of every state is emitted as a table row and replayed into the real arithmetic          *)
(* functions through three call paths.                                                     *)
EXTENDS Integers, Sequences, FiniteSets, TLC, Json

Abs(x) == IF x < 0 THEN -x ELSE x
Sign(x) == IF x < 0 THEN -1 ELSE IF x > 0 THEN 1 ELSE 0
RECURSIVE Gcd(_, _)
Gcd(x, y) == IF y = 0 THEN x ELSE Gcd(y, x % y)
(* a rational in lowest terms, denominator positive *)
Q(n, d) == LET s == IF d < 0 THEN -1 ELSE 1
               g == Gcd(Abs(n), Abs(d))
           IN <<(s * n) \div g, (s * d) \div g>>
QAdd(x, y) == Q(x[1] * y[2] + y[1] * x[2], x[2] * y[2])
QSub(x, y) == Q(x[1] * y[2] - y[1] * x[2], x[2] * y[2])
QMul(x, y) == Q(x[1] * y[1], x[2] * y[2])
QDiv(x, y) == Q(x[1] * y[2], x[2] * y[1])
QTrunc(x) == <<Sign(x[1]) * (Abs(x[1]) \div x[2]), 1>>          \* towards zero
QFloor(x) == <<x[1] \div x[2], 1>>                               \* towards minus infinity (d > 0)
QLt(x, y) == x[1] * y[2] < y[1] * x[2]
QAbs(x) == <<Abs(x[1]), x[2]>>
QSign(x) == Sign(x[1])

Num(k, n, d) == [k |-> k, n |-> Q(n, d)[1], d |-> Q(n, d)[2]]
Val(a) == <<a.n, a.d>>

(* ---- the universe -------------------------------------------------------------------- *)
Ints == <<0, 1, -1, 2, -2, 3, -3, 7, -7, 10, 12, -12, 100, -100, 9999>>
Ratios == << <<1, 2>>, <<-1, 2>>, <<1, 3>>, <<-1, 3>>, <<2, 3>>, <<3, 2>>, <<-3, 2>>, <<7, 2>>, <<-7, 3>>, <<22, 7>>, <<1, 100>> >>
Decs == << <<0, 1>>, <<1, 1>>, <<-1, 1>>, <<1, 2>>, <<3, 2>>, <<-5, 2>>, <<1, 4>>, <<10, 1>> >>
Floats == << <<0, 1>>, <<1, 1>>, <<-1, 1>>, <<1, 2>>, <<3, 2>>, <<-5, 2>>, <<1, 4>>, <<4, 1>> >>
U == [i \in 1..Len(Ints) |-> Num("int", Ints[i], 1)]
     \o [i \in 1..Len(Ratios) |-> Num("ratio", Ratios[i][1], Ratios[i][2])]
     \o [i \in 1..Len(Decs) |-> Num("dec", Decs[i][1], Decs[i][2])]
     \o [i \in 1..Len(Floats) |-> Num("float", Floats[i][1], Floats[i][2])]
Ops == <<"add", "sub", "mul", "div", "quot", "rem", "mod">>

(* ---- types: float beats decimal beats exact; an exact result is an int iff it is integral *)
Exact(k) == k \in {"int", "ratio"}
Kind(ka, kb, q) == IF ka = "float" \/ kb = "float" THEN "float"
                   ELSE IF ka = "dec" \/ kb = "dec" THEN "dec"
                   ELSE IF q[2] = 1 THEN "int" ELSE "ratio"
Mk(ka, kb, q) == [k |-> Kind(ka, kb, q), n |-> q[1], d |-> q[2]]

Quot(a, b) == QTrunc(QDiv(Val(a), Val(b)))
Rem(a, b) == QSub(Val(a), QMul(Val(b), Quot(a, b)))
Mod(a, b) == QSub(Val(a), QMul(Val(b), QFloor(QDiv(Val(a), Val(b)))))

Defined(op, a, b) == op \in {"add", "sub", "mul"} \/ b.n # 0
Result(op, a, b) ==
  CASE op = "add" -> Mk(a.k, b.k, QAdd(Val(a), Val(b)))
    [] op = "sub" -> Mk(a.k, b.k, QSub(Val(a), Val(b)))
    [] op = "mul" -> Mk(a.k, b.k, QMul(Val(a), Val(b)))
    [] op = "div" -> Mk(a.k, b.k, QDiv(Val(a), Val(b)))
    [] op = "quot" -> Mk(a.k, b.k, Quot(a, b))
    [] op = "rem" -> Mk(a.k, b.k, Rem(a, b))
    [] op = "mod" -> Mk(a.k, b.k, Mod(a, b))

VARIABLES ia, ib
vars == <<ia, ib>>
A == U[ia]
B == U[ib]
Init == ia \in 1..Len(U) /\ ib \in 1..Len(U)
Next == UNCHANGED vars
Spec == Init /\ [][Next]_vars

(* ---- the identities (invariants over all operand pairs) --------------------------------- *)
DivisionIdentity == B.n # 0 => QAdd(QMul(Val(B), Quot(A, B)), Rem(A, B)) = Val(A)
RemSign == B.n # 0 => QSign(Rem(A, B)) \in {0, QSign(Val(A))}
ModSign == B.n # 0 => QSign(Mod(A, B)) \in {0, QSign(Val(B))}
RemSmall == B.n # 0 => QLt(QAbs(Rem(A, B)), QAbs(Val(B)))
ModSmall == B.n # 0 => QLt(QAbs(Mod(A, B)), QAbs(Val(B)))
ModCongruent == B.n # 0 => QDiv(QSub(Val(A), Mod(A, B)), Val(B))[2] = 1
IntegralIsInt == \A op \in {"add", "sub", "mul", "div"} :
                    (Defined(op, A, B) /\ Exact(A.k) /\ Exact(B.k)) =>
                       (Result(op, A, B).k = "int" <=> Result(op, A, B).d = 1)
TypeCommutes == Result("add", A, B).k = Result("add", B, A).k /\ Result("mul", A, B).k = Result("mul", B, A).k
TypeByTypesOnly == \A j \in 1..Len(U) : \A op \in {"add", "sub", "mul"} :
                      (U[j].k = B.k /\ ~Exact(B.k)) => Result(op, A, U[j]).k = Result(op, A, B).k

Row == [o \in 1..Len(Ops) |-> IF Defined(Ops[o], A, B) THEN Result(Ops[o], A, B) ELSE [k |-> "undef", n |-> 0, d |-> 1]]
Emit == PrintT(<<"TAB", ToJson([a |-> A, b |-> B, row |-> Row])>>)
=====================================================================================
