CONSTANTS Ty = "queue"  Elems = {0, 1}  KeySeq <- Keys4  MaxProbe = 3  Metas = {0, 1}
          MaxDepth = 3  MaxSize = 8  Shard = 0  NShards = 1  Mode = "tree"  Bug = "none"
INIT Init
NEXT Next
INVARIANT Laws
INVARIANT TransientLaws
PROPERTY AppendOnly
PROPERTY TransientDiscipline
CHECK_DEADLOCK FALSE
