--------------------------------- MODULE MultiFn_U ---------------------------------
(* C18: the universes (constants) of the MultiFn jobs -- design checks (MultiFn_MC),   *)
(* history generation (MultiFn_Gen) and classification (MultiFn_Diag) use the same.   *)
NoVecs == [v \in {} |-> <<>>]
AllOps == {"add", "remove", "removeall", "prefer"}
(* D: four tags; the diamond k -> c -> {a, b}, an edge that can close a cycle, and a   *)
(*    conflicting pair of preferences                                                  *)
TagsD == {"a", "b", "c", "k"}
EdgesD == {<<"k", "c">>, <<"c", "a">>, <<"c", "b">>, <<"a", "k">>}
PrefsD == {<<"a", "b">>, <<"b", "a">>}
(* D3: the cache machine multiplies the state space by the hierarchy snapshot: without the cycle edge *)
EdgesD3 == {<<"k", "c">>, <<"c", "a">>, <<"c", "b">>}
(* T: plus one class, six candidate edges, three preferable pairs (one against isa?)   *)
ClassesT == {"C1"}
EdgesT == EdgesD \cup {<<"C1", "c">>, <<"b", "a">>}
PrefsT == PrefsD \cup {<<"a", "c">>}
(* N: the smallest universe in which a stale cache entry shows (negative configs)      *)
TagsN == {"a", "c", "k"}
EdgesN == {<<"k", "c">>, <<"c", "a">>}
PrefsN == {<<"a", "c">>}
NoRemove == AllOps \ {"remove"}
NoAdd == AllOps \ {"add"}
NoRemoveAll == AllOps \ {"removeall"}
(* V: vectors of tags *)
TagsV == {"a", "c", "k"}
VecsV == [v \in {"v_ac", "v_ca", "v_cc"} |->
            CASE v = "v_ac" -> <<"a", "c">> [] v = "v_ca" -> <<"c", "a">> [] v = "v_cc" -> <<"c", "c">>]
EdgesV == {<<"c", "a">>, <<"k", "c">>}
PrefsV == {<<"v_ac", "v_ca">>, <<"v_ca", "v_ac">>}
(* K: class inheritance C2 -> C1, derive edges from classes *)
TagsK == {"a", "b"}
ClassesK == {"C1", "C2"}
BasesK == {<<"C2", "C1">>}
EdgesK == {<<"C1", "a">>, <<"a", "b">>, <<"C2", "b">>, <<"b", "a">>}
PrefsK == {<<"a", "C1">>}
(* B: five tags, three classes C3 -> C2 -> C1, vectors -- for random histories *)
TagsB == {"a", "b", "c", "k", "m"}
ClassesB == {"C1", "C2", "C3"}
BasesB == {<<"C2", "C1">>, <<"C3", "C2">>}
VecsB == [v \in {"v_ac", "v_ca", "v_cc", "v_kC"} |->
            CASE v = "v_ac" -> <<"a", "c">> [] v = "v_ca" -> <<"c", "a">>
              [] v = "v_cc" -> <<"c", "c">> [] v = "v_kC" -> <<"k", "C3">>]
EdgesB == {<<"k", "c">>, <<"c", "a">>, <<"c", "b">>, <<"a", "k">>, <<"b", "a">>, <<"m", "k">>, <<"c", "m">>,
           <<"a", "a">>, <<"C1", "a">>, <<"C2", "b">>, <<"C3", "m">>, <<"C1", "c">>}
PrefsB == {<<"a", "b">>, <<"b", "a">>, <<"a", "c">>, <<"c", "b">>, <<"v_ac", "v_ca">>, <<"v_ca", "v_ac">>,
           <<"b", "C1">>, <<"a", "C2">>, <<"v_ac", "v_kC">>}
=====================================================================================
