\* negative job: this mutant of the model must be rejected by AllQualified (anti-vacuity)
CONSTANTS MaxDepth = 1  SharedEnv = FALSE  NoEnv = FALSE  QualSpecial = TRUE  NestShares = FALSE
SPECIFICATION Spec
INVARIANT AllQualified
CHECK_DEADLOCK FALSE
