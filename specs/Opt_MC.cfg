CONSTANTS Size = 2  DevIsBecomesEq = FALSE  DevContainsSwaps = FALSE  DevDelitemAsExpr = FALSE
SPECIFICATION Spec
INVARIANT RewritePreserves
CHECK_DEADLOCK FALSE
