CONSTANTS Seeds <- S2  MaxVersion = 3  BadVersions <- V2  MTimes <- T2  Sizes <- T2
          EditDuringLoad = TRUE  AllowUndetectableEdit = FALSE
          Checks <- All4  StatFirst = TRUE  WriteOnlyOk = TRUE
          DevInternByForeignHash = FALSE  EmitMode = "all"
SPECIFICATION ISpec
INVARIANT TypeOK
INVARIANT NeverExecStale
INVARIANT CacheSound
INVARIANT LoadRunsCurrent
INVARIANT ValidAfterLoad
INVARIANT FailedLeavesNoValidCache
INVARIANT SnapshotEqual
INVARIANT InternOK
PROPERTY SafetySpec
PROPERTY LoadTerminates
