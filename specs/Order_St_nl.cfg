CONSTANTS MaxLen = 4  SubLen = 6  NoNsFirst = FALSE
INIT InitS
NEXT NextS
INVARIANT Ordered
INVARIANT Stable
INVARIANT Permutation
CONSTRAINT EmitS
CHECK_DEADLOCK FALSE
