CONSTANTS Seeds <- S1  MaxVersion = 2  BadVersions <- NoBad  MTimes <- T2  Sizes <- T2
          EditDuringLoad = FALSE  AllowUndetectableEdit = TRUE
          Checks <- All4  StatFirst = TRUE  WriteOnlyOk = TRUE
          DevInternByForeignHash = FALSE  EmitMode = "all"
SPECIFICATION ISpec
INVARIANT TypeOK
INVARIANT NeverExecStale
INVARIANT CacheSound
INVARIANT LoadRunsCurrent
INVARIANT ValidAfterLoad
INVARIANT FailedLeavesNoValidCache
INVARIANT SnapshotEqual
INVARIANT InternOK
