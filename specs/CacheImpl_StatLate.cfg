CONSTANTS Seeds <- S1  MaxVersion = 2  BadVersions <- NoBad  MTimes <- T2  Sizes <- T2
          EditDuringLoad = TRUE  AllowUndetectableEdit = FALSE
          Checks <- All4  StatFirst = FALSE  WriteOnlyOk = TRUE
          DevInternByForeignHash = FALSE  EmitMode = "all"
SPECIFICATION ISpec
INVARIANT TypeOK
INVARIANT NeverExecStale
INVARIANT CacheSound
INVARIANT LoadRunsCurrent
INVARIANT ValidAfterLoad
INVARIANT FailedLeavesNoValidCache
INVARIANT SnapshotEqual
INVARIANT InternOK
