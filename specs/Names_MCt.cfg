\* design check (thorough): both namespaces define; flags plain, priv, dyn; whole reachable state space
CONSTANTS
  NameSeq <- ClassSeq
  Munge <- MungeAll
  Ambient <- AmbientCls
  Flags <- FlagsSmall
  Toggle = FALSE
  AllowAlter = TRUE
  Definers = {"A", "B"}
SPECIFICATION ISpec
INVARIANT TypeOK
INVARIANT DistinctNamesDistinctVars
INVARIANT SameVarAllSpellings
INVARIANT LocalsShadow
INVARIANT QualifiedIgnoresLocals
INVARIANT PrivateUnreachable
INVARIANT DefOnlyModesAgree
INVARIANT RefinesNoDev
INVARIANT SlotsNoDev
INVARIANT GlobalIsLastDef
CHECK_DEADLOCK FALSE
