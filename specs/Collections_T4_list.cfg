CONSTANTS Ty = "list"  Elems = {0, 1}  KeySeq <- Keys4  MaxProbe = 4  Metas = {0, 1}
          MaxDepth = 4  MaxSize = 12  Shard = 0  NShards = 1  Mode = "tree"  Bug = "none"
INIT Init
NEXT Next
CONSTRAINT Emit
CHECK_DEADLOCK FALSE
