CONSTANTS Depth = 2  Wide = TRUE BWide = TRUE  OrOnNil = FALSE
SPECIFICATION Spec
INVARIANT Total
INVARIANT OrExact
INVARIANT AsIsValue
INVARIANT ConformingBinds
INVARIANT NilBindsNil
INVARIANT NumberRaises
CONSTRAINT Emit
CHECK_DEADLOCK FALSE
