--------------------------------- MODULE BindingsOps ---------------------------------
(* C11 -- the binding mechanism as built (lang/runtime.py), as pure operators on the state of  *)
(* one thread  ts = [stack |-> [Var -> sequence of cells], frames |-> sequence of sets of Vars]: *)
(*   Var._tl.bindings (a thread-local list per dynamic Var) and _THREAD_BINDINGS (a thread-local  *)
(*   stack of frames = the set of Vars one push_thread_bindings call pushed).                     *)
(* Used one primitive at a time by BindingsImpl (design check) and as whole calls by             *)
(* Bindings_Trace (recorded executions).                                                         *)
EXTENDS Integers, Sequences, FiniteSets

OFront(s) == SubSeq(s, 1, Len(s) - 1)
ORange(s) == {s[i] : i \in 1..Len(s)}
OVisible(ts, v, root) == IF ts.stack[v] = << >> THEN root ELSE ts.stack[v][Len(ts.stack[v])]
OBound(ts) == {v \in DOMAIN ts.stack : ts.stack[v] # << >>}

(* Var.push_bindings / Var.pop_bindings *)
CellPush(stk, v, x) == [stk EXCEPT ![v] = Append(@, x)]
CellPop(stk, v) == [stk EXCEPT ![v] = OFront(@)]
RECURSIVE PopAll(_, _)
PopAll(stk, vs) == IF vs = {} THEN stk ELSE LET v == CHOOSE x \in vs : TRUE IN PopAll(CellPop(stk, v), vs \ {v})

(* push_thread_bindings(m): pairs = the map's items in ITS iteration order, each [v, x, bad]      *)
(* (bad: the Var is not dynamic, or its validator rejects x -> the call raises there).            *)
(* norollback = TRUE is the pinned tree (Dev_NoRollbackOnPartialPush): the Vars pushed before the  *)
(* failing one stay pushed and belong to no frame.                                                 *)
RECURSIVE PushFrom(_, _, _, _)
PushFrom(ts, pairs, done, norollback) ==
  IF pairs = << >> THEN [ts |-> [stack |-> ts.stack, frames |-> Append(ts.frames, done)], ok |-> TRUE]
  ELSE LET p == Head(pairs) IN
         IF p.bad THEN [ts |-> IF norollback THEN ts ELSE [ts EXCEPT !.stack = PopAll(@, done)], ok |-> FALSE]
         ELSE PushFrom([ts EXCEPT !.stack = CellPush(@, p.v, p.x)], Tail(pairs), done \cup {p.v}, norollback)
PushCall(ts, pairs, norollback) == PushFrom(ts, pairs, {}, norollback)

(* pop_thread_bindings() *)
PopFrame(ts) == [stack |-> PopAll(ts.stack, ts.frames[Len(ts.frames)]), frames |-> OFront(ts.frames)]
RECURSIVE OPopFrames(_, _)
OPopFrames(ts, n) == IF n = 0 THEN ts ELSE OPopFrames(PopFrame(ts), n - 1)

(* compiled (set! v x): raises unless v is thread-bound, else Var.set_value replaces the top cell *)
SetTop(ts, v, x) == IF ts.stack[v] = << >> THEN [ts |-> ts, ok |-> FALSE]
                    ELSE [ts |-> [ts EXCEPT !.stack[v][Len(ts.stack[v])] = x], ok |-> TRUE]

(* get_thread_bindings(): the Vars of all frames with their visible values; bound-fn* re-pushes them in the child *)
(* (with-bindings* around the child's function).  `base` is what the carrier thread already holds: nothing for a  *)
(* new thread; for future / pmap the executor may reuse an idle worker thread, whose thread-local cells survive.  *)
ConveyedVars(ts) == UNION ORange(ts.frames)
ChildOn(base, ts, conveys, root) ==
    IF conveys THEN [stack |-> [v \in DOMAIN ts.stack |-> IF v \in ConveyedVars(ts)
                                                            THEN Append(base.stack[v], OVisible(ts, v, root))
                                                            ELSE base.stack[v]],
                     frames |-> Append(base.frames, ConveyedVars(ts))]
               ELSE base
OnPool(kind) == kind \in {"future", "pmap"}
======================================================================================
