\* behaviour generation, privacy histories: one name (NAMES_CLASS=v), only A defines, flags plain/priv, length <= 6
\* (the shortest history in which a Var becomes private AFTER it was referred has 6 steps)
CONSTANTS
  NameSeq <- ClassSeq
  Munge <- MungeAll
  Ambient <- AmbientCls
  Flags <- FlagsPriv
  Toggle = TRUE
  AllowAlter = FALSE
  Definers = {"A"}
  MaxLen = 6
SPECIFICATION GSpec
CONSTRAINT Emit
INVARIANT RefinesNoDev
CHECK_DEADLOCK FALSE
