CONSTANTS
  StrLen = 3
  Depth = 2
  Dev = {}
SPECIFICATION Spec
INVARIANT RoundTrip
INVARIANT Idempotent
CONSTRAINT EmitV
CHECK_DEADLOCK FALSE
