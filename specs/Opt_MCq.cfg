CONSTANTS Size = 1  DevIsBecomesEq = FALSE  DevContainsSwaps = FALSE  DevDelitemAsExpr = FALSE
SPECIFICATION Spec
INVARIANT RewritePreserves
CHECK_DEADLOCK FALSE
