CONSTANTS Threads <- T2  N = 2  FailPolicy = "retry"  Progs <- ProgsQ  Plans <- PlansF2
          LockUnderGIL = FALSE  ErrLeavesComputing = TRUE  Record = FALSE  Steer = FALSE
SPECIFICATION Spec
INVARIANT Simulates
INVARIANT SameShape
INVARIANT MutexSane
INVARIANT UnderMutex
INVARIANT RunsAtMostOnce
INVARIANT ThrowKeepsCell
INVARIANT DemandBound
PROPERTY Termination
