CONSTANTS Tags <- TagsD  Classes <- ClassesT  Bases = {}  VecElems <- NoVecs  Dflt = "dflt"
          Edges <- EdgesT  PrefPairs <- PrefsT
          DevOrder = TRUE  DevClassAnc = TRUE  ResetOn = {}  CheckHier = TRUE
INIT DInit
NEXT DNext
INVARIANT MapsExact
INVARIANT DiagSane
CONSTRAINT Emit
CHECK_DEADLOCK FALSE
