--------------------------------- MODULE MultiFn ---------------------------------
(* C18 -- multimethod dispatch depends only on the current methods, preferences and   *)
(* hierarchy (required specification).                                                *)
(*                                                                                    *)
(* A multimethod is the triple (methods, prefers, parents):                           *)
(*   methods  the set of dispatch values that have a method (the method for dispatch  *)
(*            value m answers "m", so a result names the method that ran)             *)
(*   prefers  the declared preferences, a set of pairs <<x, y>> (x preferred over y)  *)
(*   parents  the derive relation of the hierarchy, pairs <<child, parent>>           *)
(* A call is a function of these three and nothing else: no cache, no insertion       *)
(* order, no iteration order appears in this module.                                  *)
(*                                                                                    *)
(* Dispatch values are names (strings): tags (namespaced keywords), Python classes    *)
(* with a fixed inheritance relation Bases, vectors of those (VecElems gives the      *)
(* elements of a vector name) and the default dispatch value Dflt.                    *)
(* Outcomes of a call are the name of the method that ran, "!amb" (raises: ambiguous) *)
(* or "!none" (raises: no method).                                                    *)
EXTENDS Integers, Sequences, FiniteSets, TLC

CONSTANTS Tags,        \* set of tag names
          Classes,     \* set of class names
          Bases,       \* set of <<class, direct base class>>          (fixed)
          VecElems,    \* [vector name -> sequence of tag/class names] (fixed)
          Dflt,        \* name of the default dispatch value
          Edges,       \* the <<child, parent>> pairs derive/underive are tried with
          PrefPairs    \* the <<x, y>> pairs prefer-method is tried with

VARIABLES methods, prefers, parents
mvars == <<methods, prefers, parents>>

Atoms == Tags \cup Classes
Vecs == DOMAIN VecElems
DV == Atoms \cup Vecs \cup {Dflt}
Amb == "!amb"
None == "!none"

ASSUME /\ Tags \cap Classes = {} /\ Dflt \notin Atoms \cup Vecs /\ Vecs \cap Atoms = {}
       /\ \A e \in Bases : e[1] \in Classes /\ e[2] \in Classes
       /\ \A e \in Edges : e[1] \in Atoms /\ e[2] \in Tags
       /\ \A e \in PrefPairs : e[1] \in DV /\ e[2] \in DV /\ e[1] # e[2]
       /\ \A v \in Vecs : \A i \in 1..Len(VecElems[v]) : VecElems[v][i] \in Atoms

(* ------------------------------- the hierarchy ------------------------------------ *)
(* everything is a function of a relation R (set of <<child, parent>> pairs)           *)
Direct(R, x) == {e[2] : e \in {f \in R : f[1] = x}}
RECURSIVE Closure(_, _, _)
Closure(R, S, n) == LET S2 == S \cup UNION {Direct(R, s) : s \in S}
                    IN IF n = 0 \/ S2 = S THEN S ELSE Closure(R, S2, n - 1)
Above(R, x) == Closure(R, Direct(R, x), Cardinality(Atoms))       \* strict ancestors under R

Up(P) == P \cup Bases                       \* one step up: a derive edge or a base class
Parents(P, x) == Direct(Up(P), x)
Ancestors(P, x) == Above(Up(P), x)
(* descendants is defined on tags, through derive edges; whether subclasses of a derived   *)
(* class count is left open (DescMin <= observed <= DescMax)                                *)
DescMin(P, t) == {x \in Atoms : t \in Above(P, x)}
DescMax(P, t) == {x \in Atoms : t \in Ancestors(P, x)}

(* isa? over an "ancestor function" AF (name -> set of strict ancestors), so that the same   *)
(* definition serves the required hierarchy and the hierarchy as built (MultiFnImpl)       *)
IsaAtomF(AF, x, y) == x = y \/ y \in AF[x]
IsaF(AF, x, y) ==
  IF x = y THEN TRUE
  ELSE IF x \in Vecs /\ y \in Vecs
         THEN /\ Len(VecElems[x]) = Len(VecElems[y])
              /\ \A i \in 1..Len(VecElems[x]) : IsaAtomF(AF, VecElems[x][i], VecElems[y][i])
  ELSE IF x \in Atoms /\ y \in Atoms THEN IsaAtomF(AF, x, y)
  ELSE FALSE
(* TLCEval: TLC builds the function once instead of re-evaluating its body at every application *)
AncF(P) == TLCEval([x \in Atoms |-> Ancestors(P, x)])
IsaAtom(P, x, y) == IsaAtomF(AncF(P), x, y)
Isa(P, x, y) == IsaF(AncF(P), x, y)

(* ------------------------------- resolution ---------------------------------------- *)
CandsF(M, AF, dv) == {m \in M : IsaF(AF, dv, m)}
DomF(Pf, AF, x, y) == x = y \/ IsaF(AF, x, y) \/ <<x, y>> \in Pf
BestF(M, Pf, AF, dv) == LET C == CandsF(M, AF, dv) IN {x \in C : \A y \in C : DomF(Pf, AF, x, y)}
NoMatch(M) == IF Dflt \in M THEN Dflt ELSE None

(* The set of outcomes the property allows for a call with dispatch value dv.  It is a   *)
(* singleton except in one corner the property does not settle: a preference declared   *)
(* *against* isa? (x preferred over y although y isa x) can make two candidates dominate *)
(* each other; then either of them, or "ambiguous", is accepted.                         *)
AllowedF(M, Pf, AF, dv) ==
  LET C == CandsF(M, AF, dv)
      B == BestF(M, Pf, AF, dv)
  IN IF C = {} THEN {NoMatch(M)}
     ELSE IF B = {} THEN {Amb}
     ELSE IF Cardinality(B) = 1 THEN B
     ELSE B \cup {Amb}
Allowed(M, Pf, P, dv) == AllowedF(M, Pf, AncF(P), dv)

(* ------------------------------- mutators ------------------------------------------- *)
PreferErr(Pf, x, y) == <<y, x>> \in Pf                       \* direct conflict
DeriveErr(P, t, p) == t = p \/ t \in Above(P, p)             \* equal / cyclic

Init == methods = {} /\ prefers = {} /\ parents = {}

AddMethod(dv) == methods' = methods \cup {dv} /\ UNCHANGED <<prefers, parents>>
RemoveMethod(dv) == methods' = methods \ {dv} /\ UNCHANGED <<prefers, parents>>
RemoveAll == methods' = {} /\ UNCHANGED <<prefers, parents>>
Prefer(x, y) == /\ prefers' = IF PreferErr(prefers, x, y) THEN prefers ELSE prefers \cup {<<x, y>>}
                /\ UNCHANGED <<methods, parents>>
Derive(t, p) == /\ parents' = IF DeriveErr(parents, t, p) THEN parents ELSE parents \cup {<<t, p>>}
                /\ UNCHANGED <<methods, prefers>>
Underive(t, p) == parents' = parents \ {<<t, p>>} /\ UNCHANGED <<methods, prefers>>
(* a call changes nothing; its outcome is any member of Allowed *)
Call(dv, out) == out \in Allowed(methods, prefers, parents, dv) /\ UNCHANGED mvars

Mutate == \/ \E dv \in DV : AddMethod(dv) \/ RemoveMethod(dv)
          \/ RemoveAll
          \/ \E e \in PrefPairs : Prefer(e[1], e[2])
          \/ \E e \in Edges : Derive(e[1], e[2]) \/ Underive(e[1], e[2])
Next == Mutate
Spec == Init /\ [][Next]_mvars

(* ------------------------------- what TLC checks ------------------------------------ *)
TypeOK == methods \subseteq DV /\ prefers \subseteq PrefPairs /\ parents \subseteq Edges
Acyclic == \A x \in Atoms : x \notin Above(parents, x)
(* isa? is a partial order on the dispatch values *)
IsaOrder == LET AF == AncF(parents) IN
            /\ \A x, y \in DV : (IsaF(AF, x, y) /\ IsaF(AF, y, x)) => x = y
            /\ \A x, y, z \in DV : (IsaF(AF, x, y) /\ IsaF(AF, y, z)) => IsaF(AF, x, z)
(* parents / ancestors / descendants / isa? are mutually consistent *)
HierConsistent ==
  LET AF == AncF(parents) IN
  /\ \A x \in Atoms : /\ Parents(parents, x) \subseteq AF[x]
                      /\ AF[x] = Parents(parents, x) \cup UNION {AF[p] : p \in Parents(parents, x)}
                      /\ \A y \in Atoms : (x # y /\ IsaAtomF(AF, x, y)) <=> y \in AF[x]
  /\ \A t \in Tags : /\ DescMin(parents, t) \subseteq DescMax(parents, t)
                     /\ \A x \in Tags : x \in DescMin(parents, t) <=> t \in AF[x]
                     /\ DescMax(parents, t) \cap Tags = DescMin(parents, t) \cap Tags
NoPreferConflict == \A e \in prefers : <<e[2], e[1]>> \notin prefers
(* resolution is well defined: an outcome is a method that applies, and without a         *)
(* preference against isa? it is unique                                                   *)
ResolveSane ==
  LET AF == AncF(parents) IN
  \A dv \in DV :
    LET A == AllowedF(methods, prefers, AF, dv) IN
      /\ A # {}
      /\ \A o \in A : o \in {Amb, None} \/ (o \in methods /\ (IsaF(AF, dv, o) \/ o = Dflt))
      /\ dv \in methods => dv \in A
      /\ (\A e \in prefers : ~IsaF(AF, e[2], e[1])) => Cardinality(A) = 1
===================================================================================
