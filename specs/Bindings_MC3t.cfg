CONSTANTS Threads <- T3  DynVars <- Dyn  NonDyn = "n"  Vals <- OneVal  Bad <- MBad  Maps <- TinyMaps  Orders <- OneOrder
          SpawnKinds <- TwoKinds  MaxDepth = 1  NoRollback = FALSE
SPECIFICATION Spec
INVARIANT RestoredOnExit
INVARIANT WellFormed
INVARIANT ImplAgrees
PROPERTY Isolation
PROPERTY Conveyance
PROPERTY SetInnermost
CHECK_DEADLOCK FALSE
