------------------------------- MODULE CacheImpl_MC -------------------------------
(* model-checking wrapper: constants, and the edge-emitting next-state relation used for  *)
(* the spec -> code binding (one line per EDGE of the state graph, DESIGN 3.5).           *)
(* Wire format (decoded by harness/c14.py): a state is the tuple                          *)
(*   <<hist, cache, proc, ran, snap, seed-of-nsKw>>     with                              *)
(*   hist  = <<<<mtime, size>>, ...>>                                                      *)
(*   file  = <<magicOk, mtimeBytes, mtimeVal, sizeBytes, sizeVal, payload 0|1|2,           *)
(*             ofVersion, writerSeed>>,  <<0>> = absent,  <<>> = no file value             *)
(*   proc  = <<seed, write, phase index, stat.mtime, stat.size, got, seen bits, full,      *)
(*             wpos>> or <<>>                                                              *)
(*   ran   = <<v, from-cache, ok, complete, writer>> or <<>>                               *)
(*   snap  = <<ok, code, identical>> or <<>>                                               *)
(* an edge is <<action, args, from, to, Valid(cache', src')>>.                             *)
EXTENDS CacheImpl, Json

CONSTANT EmitMode       \* "all" | "snapshot" (only Snapshot edges: as-built job with the deviation)
                        \* | "midedit" (only edges of loads during which the source was edited)

S1 == {1}
S2 == {1, 2}
V2 == {2}
NoBad == {}
T2 == {1, 2}
All4 == {"magic", "mtime", "size", "payload"}
NoMagic == All4 \ {"magic"}
NoMtime == All4 \ {"mtime"}
NoSize == All4 \ {"size"}
NoPayload == All4 \ {"payload"}

B(b) == IF b THEN 1 ELSE 0
Phases == <<"started", "read", "use", "fallback", "towrite", "writing", "done", "failed">>
PhaseIdx(p) == CHOOSE i \in 1..Len(Phases) : Phases[i] = p
PlIdx(p) == CASE p = "none" -> 0 [] p = "partial" -> 1 [] p = "full" -> 2
EncFile(c) == IF c.ty = "file"
                THEN <<B(c.magicOk), c.mtimeBytes, c.mtimeVal, c.sizeBytes, c.sizeVal, PlIdx(c.payload),
                       c.ofVersion, c.writerSeed>>
                ELSE IF c.ty = "absent" THEN <<0>> ELSE <<>>
EncHist(h) == [i \in 1..Len(h) |-> <<h[i].mtime, h[i].size>>]
EncProc(p) == IF p = NoProc THEN <<>>
              ELSE <<p.seed, B(p.write), PhaseIdx(p.phase), p.stat.mtime, p.stat.size, EncFile(p.got),
                     [v \in 1..MaxVersion |-> B(v \in p.seen)], EncFile(p.full), p.wpos>>
EncRan(r) == IF r = NoRan THEN <<>> ELSE <<r.v, B(r.from = "cache"), B(r.ok), B(r.complete), r.writer>>
EncSnap(s) == IF s = NoSnap THEN <<>> ELSE <<B(s.ok), s.code, B(s.identical)>>
ESt == <<EncHist(hist), EncFile(cache), EncProc(proc), EncRan(ran), EncSnap(snap), nsKw[1]>>
SrcOf(h) == [version |-> Len(h), mtime |-> h[Len(h)].mtime, size |-> h[Len(h)].size]

Edited(p) == p # NoProc /\ Cardinality(p.seen) > 1
Emit(a, args) == IF \/ EmitMode = "all"
                    \/ EmitMode = "snapshot" /\ a = "Snapshot"
                    \/ EmitMode = "midedit" /\ (Edited(proc) \/ Edited(proc'))
                   THEN PrintT(<<"EDGE", ToJson(<<a, args, ESt, ESt', B(Valid(cache', SrcOf(hist')))>>)>>)
                   ELSE TRUE

ENext == \/ \E s \in Seeds, w \in BOOLEAN : IStartLoad(s, w) /\ Emit("StartLoad", <<s, B(w)>>)
         \/ ReadCache /\ UNCHANGED kvars /\ Emit("ReadCache", <<>>)
         \/ Decide /\ UNCHANGED kvars /\ Emit("Decide", <<>>)
         \/ IExecCached /\ Emit("ExecCached", <<>>)
         \/ IRecompile /\ Emit("Recompile", <<>>)
         \/ WriteBegin /\ UNCHANGED kvars /\ Emit("WriteBegin", <<>>)
         \/ WriteBytes /\ UNCHANGED kvars /\ Emit("WriteBytes", <<>>)
         \/ WriteEnd /\ UNCHANGED kvars /\ Emit("WriteEnd", <<>>)
         \/ ISnapshot /\ Emit("Snapshot", <<>>)
         \/ IExit /\ Emit("Exit", <<>>)
         \/ ICrash /\ Emit("Crash", <<>>)
         \/ \E m \in MTimes, z \in Sizes : EditSource(m, z) /\ UNCHANGED kvars /\ Emit("EditSource", <<m, z>>)
         \/ RemoveCache /\ UNCHANGED kvars /\ Emit("RemoveCache", <<>>)
         \/ OtherMagic /\ UNCHANGED kvars /\ Emit("OtherMagic", <<>>)
ESpec == IInit /\ [][ENext]_ivars

(* the decision table of the decoding layer: every prefix class / other magic x header match, *)
(* and the exception families that mean "fall back to source"                                 *)
TabFiles == {Pfx(File(mg, 4, mv, 4, sv, "full", 1, 1), i) : mg \in BOOLEAN, mv \in {1, 2}, sv \in {1, 2}, i \in 0..LastPos}
TabRow(c) == [magicOk |-> c.magicOk, mtimeBytes |-> c.mtimeBytes, mtimeMatch |-> c.mtimeVal = 1,
              sizeBytes |-> c.sizeBytes, sizeMatch |-> c.sizeVal = 1, payload |-> c.payload,
              use |-> Accepts(c, [mtime |-> 1, size |-> 1], AllChecks)]
EmitTab == (hist = <<[mtime |-> 1, size |-> 1]>> /\ cache = Absent /\ proc = NoProc) =>
             PrintT(<<"TAB", ToJson([rows |-> {TabRow(c) : c \in TabFiles}, fallback |-> FallbackFamilies])>>)
===================================================================================
