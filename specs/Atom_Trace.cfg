SPECIFICATION Spec
INVARIANT ValidAlways
CONSTRAINT Accept
CHECK_DEADLOCK FALSE
