----------------------------------- MODULE Opt_MC -----------------------------------
(* Design check for C15: on a small Python-like language with effects (marker calls),   *)
(* identity vs equality, and early exits, EVERY pair (before, after) related by the      *)
(* allowed rewrites of Opt.tla has the same result, exception and effect order.          *)
(* With a deviation switched on TLC must find the counterexample (negative configs).     *)
EXTENDS Opt

CONSTANT Size       \* 1: two-statement blocks over a tiny alphabet (quick); 2: reduced alphabet; 3: full alphabet

(* ---- the mini language (same encoding as real ASTs) ---------------------------------- *)
C1 == [k |-> "const", v |-> "1", single |-> FALSE]
CNone == [k |-> "const", v |-> "None", single |-> TRUE]
X == [k |-> "name", n |-> "x"]
M(i) == [k |-> "gen", cls |-> "Call", lit |-> i, ch |-> <<>>]          \* a call with an effect: logs i, returns 1
Op(fn, a, b) == [k |-> "opcall", fn |-> fn, args |-> <<a, b>>]
Cmp(op, l, r) == [k |-> "compare", op |-> op, l |-> l, r |-> r]
Bin(op, l, r) == [k |-> "binop", op |-> op, l |-> l, r |-> r]
Not(e) == [k |-> "unary", op |-> "Not", e |-> e]
TestX == Cmp("Is", CNone, X)                                            \* the generator's `None is x`

Atoms == {C1, X, M("1"), M("2")}
Exprs == Atoms
         \cup {Op("is_", X, C1), Cmp("Is", X, C1), Cmp("Eq", X, C1)}
         \cup {Op("contains", M("1"), M("2")), Cmp("In", M("2"), M("1")), Op("contains", X, C1), Cmp("In", C1, X)}
         \cup {Op("add", M("1"), M("2")), Bin("Add", M("1"), M("2")), Bin("Add", M("2"), M("1"))}

SExpr(e) == [s |-> "expr", e |-> e]
SAssign(e) == [s |-> "assign", tg |-> <<X>>, e |-> e]
SReturn(e) == [s |-> "return", e |-> e]
SRaise(e) == [s |-> "raise", e |-> e, cause |-> CNone]
SIf(t, a, b) == [s |-> "if", t |-> t, a |-> a, b |-> b]
SGlobal(p) == [s |-> "global", names |-> <<"g">>, prior |-> p]
SPass == [s |-> "pass"]

Leaves == {<<>>, <<SExpr(C1)>>, <<SExpr(M("2"))>>, <<SExpr(X)>>}
Stmts == {SExpr(e) : e \in Exprs} \cup {SAssign(e) : e \in {C1, M("1")}} \cup {SReturn(e) : e \in Exprs}
         \cup {SRaise(M("1"))} \cup {SPass, SGlobal(<<>>), SGlobal(<<"g">>)}
         \cup {SIf(t, a, b) : t \in {TestX, Not(TestX), M("1")}, a \in Leaves, b \in Leaves}
SmallStmts == {SExpr(e) : e \in Exprs} \cup {SReturn(e) : e \in {X, Op("is_", X, C1), Cmp("Is", X, C1), Cmp("Eq", X, C1)}}
              \cup {SPass, SGlobal(<<"g">>), SRaise(M("1")), SAssign(M("1"))}
              \cup {SIf(t, a, b) : t \in {TestX, Not(TestX)}, a \in Leaves, b \in Leaves}
TinyStmts == {SExpr(C1), SExpr(M("1")), SReturn(X), SReturn(Op("is_", X, C1)), SReturn(Cmp("Is", X, C1)),
               SReturn(Cmp("Eq", X, C1)), SGlobal(<<"g">>), SIf(TestX, <<SExpr(C1)>>, <<SExpr(M("2"))>>),
               SIf(Not(TestX), <<SExpr(M("2"))>>, <<>>), SIf(TestX, <<SExpr(X)>>, <<>>)}
Pairs(S) == {<<s, t>> : s \in S, t \in S}
Blocks == {<<>>} \cup {<<s>> : s \in Stmts}
          \cup (IF Size = 1 THEN Pairs(TinyStmts) ELSE IF Size = 2 THEN Pairs(SmallStmts) ELSE Pairs(Stmts))

(* ---- semantics ----------------------------------------------------------------------- *)
(* values: [val, id]; `==` compares val, `is` compares id                                  *)
One == [val |-> 1, id |-> "one"]
OtherOne == [val |-> 1, id |-> "other"]          \* equal to 1 but not the same object (think 1.0)
NoneV == [val |-> 0, id |-> "none"]
TrueV == [val |-> 1, id |-> "true"]
FalseV == [val |-> 0, id |-> "false"]
B(b) == IF b THEN TrueV ELSE FalseV
TruthyPy(v) == v.id \notin {"none", "false"} /\ v.val # 0
MarkNo == [i \in {"1", "2"} |-> IF i = "1" THEN 1 ELSE 2]

RECURSIVE EvalX(_, _, _)
Ok(v, l) == [ok |-> TRUE, v |-> v, log |-> l]
Two(e1, e2, x, l, f(_, _)) ==
  LET a == EvalX(e1, x, l) IN IF ~a.ok THEN a
  ELSE LET b == EvalX(e2, x, a.log) IN IF ~b.ok THEN b ELSE Ok(f(a.v, b.v), b.log)
EvalX(e, x, l) ==
  CASE e.k = "const" -> Ok(IF e.v = "1" THEN One ELSE NoneV, l)
    [] e.k = "name" -> Ok(x, l)
    [] e.k = "gen" -> Ok(One, Append(l, MarkNo[e.lit]))
    [] e.k = "unary" -> LET a == EvalX(e.e, x, l) IN IF a.ok THEN Ok(B(~TruthyPy(a.v)), a.log) ELSE a
    [] e.k = "opcall" ->
         (CASE e.fn = "is_" -> Two(e.args[1], e.args[2], x, l, LAMBDA p, q : B(p.id = q.id))
            [] e.fn = "contains" -> Two(e.args[1], e.args[2], x, l, LAMBDA p, q : B(p.val = q.val))
            [] e.fn = "add" -> Two(e.args[1], e.args[2], x, l, LAMBDA p, q : [val |-> p.val + q.val, id |-> "sum"]))
    [] e.k = "binop" -> Two(e.l, e.r, x, l, LAMBDA p, q : [val |-> p.val + q.val, id |-> "sum"])
    [] e.k = "compare" ->
         (CASE e.op = "Is" -> Two(e.l, e.r, x, l, LAMBDA p, q : B(p.id = q.id))
            [] e.op = "Eq" -> Two(e.l, e.r, x, l, LAMBDA p, q : B(p.val = q.val))
            [] e.op = "In" -> Two(e.l, e.r, x, l, LAMBDA p, q : B(p.val = q.val)))

RECURSIVE Run(_, _, _)
Run(ss, x, l) ==
  IF ss = <<>> THEN [ctl |-> "next", v |-> NoneV, x |-> x, log |-> l]
  ELSE LET s == Head(ss) IN
    CASE s.s = "expr" -> LET r == EvalX(s.e, x, l) IN Run(Tail(ss), x, r.log)
      [] s.s = "assign" -> LET r == EvalX(s.e, x, l) IN Run(Tail(ss), r.v, r.log)
      [] s.s = "return" -> LET r == EvalX(s.e, x, l) IN [ctl |-> "return", v |-> r.v, x |-> x, log |-> r.log]
      [] s.s = "raise" -> LET r == EvalX(s.e, x, l) IN [ctl |-> "raise", v |-> r.v, x |-> x, log |-> r.log]
      [] s.s \in {"pass", "global"} -> Run(Tail(ss), x, l)
      [] s.s = "if" -> LET t == EvalX(s.t, x, l)
                           r == Run(IF TruthyPy(t.v) THEN s.a ELSE s.b, x, t.log)
                       IN IF r.ctl = "next" THEN Run(Tail(ss), r.x, r.log) ELSE r

VARIABLES before, after, x0
vars == <<before, after, x0>>
Pending == <<[s |-> "pending"]>>
Init == before \in Blocks /\ after = Pending /\ x0 = NoneV
(* one step per allowed rewrite result: `after` ranges over everything Conforms relates `before` to *)
Next == /\ after = Pending
        /\ after' \in {a \in Blocks : Conforms(before, a)}
        /\ x0' \in {One, OtherOne, NoneV}
        /\ UNCHANGED before
Spec == Init /\ [][Next]_vars

RewritePreserves == after # Pending => Run(before, x0, <<>>) = Run(after, x0, <<>>)
(* anti-vacuity: the relation is not just identity *)
SomeRewrite == \E b \in Blocks, a \in Blocks : a # b /\ Conforms(b, a)
ASSUME SomeRewrite
=====================================================================================
