CONSTANTS
  StrLen = 2
  Depth = 1
  Dev = {}
SPECIFICATION Spec
INVARIANT EdnRoundTrip
INVARIANT JsonNormIdempotent
CONSTRAINT EmitC
CHECK_DEADLOCK FALSE
