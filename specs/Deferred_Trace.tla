------------------------------- MODULE Deferred_Trace -------------------------------
(* Batch trace validation for C13: every recorded execution of the real delay / promise /   *)
(* future (under the deterministic scheduler) must be a behaviour of Deferred.tla.  Events:  *)
(* call, ret, bstart, bend (runs of the harness-supplied body); Lin / Expire / Publish are    *)
(* silent and placed by TLC.  IOEnv.DEVS = "none" validates against the required behaviour;   *)
(* a deviation name validates against the behaviour with exactly that named deviation.        *)
EXTENDS Integers, Sequences, FiniteSets, TLC, Json, IOUtils

Traces == JsonDeserialize(IOEnv.TRACE_FILE)
DevSet == CASE IOEnv.DEVS = "none" -> {}
            [] IOEnv.DEVS = "both" -> {"DelayBodyInRetryLoop", "FutureSwallowsTimeoutError"}
            [] OTHER -> {IOEnv.DEVS}
Threads == 1..4
VARIABLES tid, l, obj, pend
INSTANCE Deferred WITH Devs <- DevSet
vars == <<tid, l, obj, pend>>

Tr == Traces[tid].ev
Init == /\ tid \in 1..Len(Traces)
        /\ l = 1
        /\ DInit(Traces[tid].kind)

Ev == Tr[l]
Consume == l' = l + 1 /\ UNCHANGED tid
Silent == UNCHANGED <<tid, l>>
IsDelay == Traces[tid].kind = "delay"

TCall == /\ l <= Len(Tr) /\ Ev.k = "call"
         /\ DCall(Ev.t, [op |-> Ev.op, timed |-> Ev.timed, a |-> Ev.a])
         /\ Consume
TRet == /\ l <= Len(Tr) /\ Ev.k = "ret"
        /\ DRet(Ev.t, Ev.res)
        /\ Consume
TBodyStart == /\ l <= Len(Tr) /\ Ev.k = "bstart"
              /\ IF IsDelay THEN Ev.t \in Threads /\ (DBodyStart(Ev.t) \/ DevBodyStart(Ev.t)) ELSE FBodyStart
              /\ Consume
TBodyEnd == /\ l <= Len(Tr) /\ Ev.k = "bend"
            /\ IF IsDelay THEN Ev.t \in Threads /\ \E remember \in BOOLEAN : DBodyEnd(Ev.t, Ev.res, remember)
                          ELSE FBodyEnd(Ev.res)
            /\ Consume
TSilent == \/ \E t \in Threads : (DLin(t) \/ DExpire(t) \/ DPublish(t) \/ DevSwallow(t)) /\ Silent
           \/ FPublish /\ Silent

Next == TCall \/ TRet \/ TBodyStart \/ TBodyEnd \/ TSilent
Spec == Init /\ [][Next]_vars

(* clauses of the required specification on every state / step of every matched prefix *)
DelayOnce == DevSet = {} => DelayOnceInv
RealizedMonotone == [][RealizedMonotoneAct]_vars
ValueStable == [][ValueStableAct]_vars

Fin == Traces[tid].final
Accept == (/\ l = Len(Tr) + 1
           /\ \A t \in Threads : pend[t] = None
           /\ obj.runners = {} /\ obj.st # "finishing"
           /\ Realized(obj) = Fin.real
           /\ (obj.st = "done" /\ obj.kind # "future" => obj.val = Fin.val))
             => PrintT(<<"ACC", tid>>)
Prefix == PrintT(<<"PFX", tid * 10000 + l>>)
=====================================================================================
