\* negative job: this mutant of the model must be rejected by GensymFunction (the nested x# is the enclosing x#) (anti-vacuity)
CONSTANTS MaxDepth = 1  SharedEnv = FALSE  NoEnv = FALSE  QualSpecial = FALSE  NestShares = TRUE
SPECIFICATION Spec
INVARIANT GensymFunction
CHECK_DEADLOCK FALSE
