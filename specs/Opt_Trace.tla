---------------------------------- MODULE Opt_Trace ----------------------------------
(* code -> spec for C15: every (before, after) pair recorded from the real optimization  *)
(* pass must be related by the allowed rewrites of Opt.tla.  A pair that is not is        *)
(* classified by the smallest set of named deviations that relates it.                    *)
EXTENDS Integers, Sequences, FiniteSets, TLC, Json, IOUtils

Pairs == JsonDeserialize(IOEnv.TRACE_FILE)
N0 == INSTANCE Opt WITH DevIsBecomesEq <- FALSE, DevContainsSwaps <- FALSE, DevDelitemAsExpr <- FALSE
DI == INSTANCE Opt WITH DevIsBecomesEq <- TRUE, DevContainsSwaps <- FALSE, DevDelitemAsExpr <- FALSE
DC == INSTANCE Opt WITH DevIsBecomesEq <- FALSE, DevContainsSwaps <- TRUE, DevDelitemAsExpr <- FALSE
DD == INSTANCE Opt WITH DevIsBecomesEq <- FALSE, DevContainsSwaps <- FALSE, DevDelitemAsExpr <- TRUE
DIC == INSTANCE Opt WITH DevIsBecomesEq <- TRUE, DevContainsSwaps <- TRUE, DevDelitemAsExpr <- FALSE
DID == INSTANCE Opt WITH DevIsBecomesEq <- TRUE, DevContainsSwaps <- FALSE, DevDelitemAsExpr <- TRUE
DCD == INSTANCE Opt WITH DevIsBecomesEq <- FALSE, DevContainsSwaps <- TRUE, DevDelitemAsExpr <- TRUE
DA == INSTANCE Opt WITH DevIsBecomesEq <- TRUE, DevContainsSwaps <- TRUE, DevDelitemAsExpr <- TRUE

VARIABLES pid, verdict
vars == <<pid, verdict>>
B == Pairs[pid].before
A == Pairs[pid].after
Classify ==
  IF N0!Conforms(B, A) THEN <<>>
  ELSE IF DI!Conforms(B, A) THEN <<"IsBecomesEq">>
  ELSE IF DC!Conforms(B, A) THEN <<"ContainsSwaps">>
  ELSE IF DD!Conforms(B, A) THEN <<"DelitemAsExpr">>
  ELSE IF DIC!Conforms(B, A) THEN <<"IsBecomesEq", "ContainsSwaps">>
  ELSE IF DID!Conforms(B, A) THEN <<"IsBecomesEq", "DelitemAsExpr">>
  ELSE IF DCD!Conforms(B, A) THEN <<"ContainsSwaps", "DelitemAsExpr">>
  ELSE IF DA!Conforms(B, A) THEN <<"IsBecomesEq", "ContainsSwaps", "DelitemAsExpr">>
  ELSE <<"unexplained">>

Init == pid \in 1..Len(Pairs) /\ verdict = <<"pending">>
Next == verdict = <<"pending">> /\ verdict' = Classify /\ UNCHANGED pid
Spec == Init /\ [][Next]_vars
Emit == (verdict # <<"pending">>) =>
           IF verdict = <<>> THEN PrintT(<<"ACC", pid>>)
           ELSE PrintT(<<"REJ", ToJson([id |-> pid, devs |-> verdict])>>)
======================================================================================
