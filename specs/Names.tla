---------------------------------- MODULE Names ----------------------------------
(* C10 -- A name denotes one binding, and reading it sees the value last given to it.  *)
(* REQUIRED specification.                                                             *)
(*                                                                                    *)
(* Two namespaces "A" and "B" and a pool of names.  A history is a sequence of         *)
(*   Def(n, fl)     (def ^fl n <value>) in the current namespace (also a redefinition) *)
(*   InNs           (in-ns 'other)                                                     *)
(*   RequireAs      (require '[other :as al])                                          *)
(*   AliasSelf      (require '[current :as al]): the alias is pointed at the current   *)
(*                  namespace -- an alias denotes the namespace it was LAST given      *)
(*   Refer(n)       (refer 'other :only '[n])                                          *)
(*   AlterRoot(n)   (alter-var-root (var n) (constantly <value>))                      *)
(* and after every step every SPELLING of every name is read in the current namespace: *)
(*   bare n | al/n | A/n | B/n | (let [n 99] n) | (var n) | (binding [n 77] n)         *)
(*                                                                                    *)
(* A Var is the pair <<namespace, name>>; it is created by the first def and never     *)
(* replaced.  Values are integers that encode who gave them:                           *)
(*     def in namespace x of name n, t-th alternation:  100*Ix(x) + 10*Ix(n) + t       *)
(*     alter-var-root:                                   100*Ix(x) + 10*Ix(n) + 5       *)
(* Outcomes of a read are integers too: a value, the identity of a Var (…+0), or one   *)
(* of the codes below.  Req(n, sp, m) is the SET of outcomes the property allows for   *)
(* spelling sp of name n under linking mode m ("d" direct linking, "i" var             *)
(* indirection); where the property is silent it contains ANY.                         *)
EXTENDS Integers, Sequences, FiniteSets, TLC

CONSTANTS NameSeq,     \* the pool (one collision class), a sequence of strings
          Ambient,     \* names that every namespace already refers from the core library (print, class)
          Flags,       \* subset of {"plain", "priv", "dyn", "redef"} a def may carry
          Toggle,      \* TRUE: a redefinition gives the other one of two values; FALSE: always the same value
          AllowAlter,  \* alter-var-root is part of the histories
          Definers     \* namespaces in which the histories def (a bound of the exploration, not of the property)

Names == {NameSeq[i] : i \in 1..Len(NameSeq)}
NSS == {"A", "B"}
Other(x) == IF x = "A" THEN "B" ELSE "A"
IxNs(x) == IF x = "A" THEN 1 ELSE 2
NIdx == [n \in Names |-> CHOOSE i \in 1..Len(NameSeq) : NameSeq[i] = n]
IxN(n) == NIdx[n]

UNRES == -1            \* compile error: the symbol does not resolve
PRIV == -2             \* compile error: the Var is private to another namespace
AMB == -3              \* the core library's Var of that name (referred by every namespace)
ANY == -4              \* the property does not say
ASSERT == -5           \* (as-built model only) the compiler dies of an internal assertion instead of reporting UNRES
LOCALV == 99
BOUNDV == 77
\* "redef": inside (binding [n 77] ...) the Var is def-ed again (same root) and then read: the thread binding stays
\* "fqp": the fully qualified name of the CURRENT namespace's Var, written where a fn parameter of the same name is in
\* scope -- ((fn [n] CUR/n) 99): a qualified symbol denotes the Var, only bare symbols are shadowed by locals
Spellings == {"bare", "al", "fqA", "fqB", "loc", "var", "bind", "redef", "fqp"}
Modes == {"d", "i"}

DefVal(x, n, t) == 100 * IxNs(x) + 10 * IxN(n) + t
AltVal(x, n) == 100 * IxNs(x) + 10 * IxN(n) + 5
Ident(x, n) == 100 * IxNs(x) + 10 * IxN(n)

VARIABLES vr,          \* [NSS \X Names -> [ex, t, alt, fl]]: the Vars (ex: interned; t: which def value is the
                       \* last one given by def -- lastDef; alt: root changed by alter-var-root since; fl: flag)
          refers,      \* [NSS -> SUBSET Names]: names referred from the other namespace
          alias,       \* [NSS -> NSS \cup {"-"}]: the namespace `al` denotes in x ("-": no such alias)
          req,         \* [NSS -> BOOLEAN]: the other namespace has been required (as-built: its module is bound)
          cur          \* current namespace
nvars == <<vr, refers, alias, req, cur>>

NoVar == [ex |-> FALSE, t |-> 0, alt |-> FALSE, fl |-> "plain"]
NInit == /\ vr = [p \in NSS \X Names |-> NoVar]
         /\ refers = [x \in NSS |-> {}]
         /\ alias = [x \in NSS |-> "-"]
         /\ req = [x \in NSS |-> FALSE]
         /\ cur = "A"

V(x, n) == vr[<<x, n>>]
LastDef(x, n) == DefVal(x, n, V(x, n).t)
Root(x, n) == IF V(x, n).alt THEN AltVal(x, n) ELSE LastDef(x, n)
Private(x, n) == V(x, n).fl = "priv"

(* ------------------------------ actions ------------------------------------------- *)
NextT(x, n) == IF Toggle /\ V(x, n).ex /\ V(x, n).t = 1 THEN 2 ELSE 1
Def(n, fl) ==
  /\ cur \in Definers
  /\ vr' = [vr EXCEPT ![<<cur, n>>] = [ex |-> TRUE, t |-> NextT(cur, n), alt |-> FALSE, fl |-> fl]]
  /\ UNCHANGED <<refers, alias, req, cur>>
InNs == cur' = Other(cur) /\ UNCHANGED <<vr, refers, alias, req>>
RequireAs ==
  /\ alias[cur] # Other(cur)
  /\ alias' = [alias EXCEPT ![cur] = Other(cur)] /\ req' = [req EXCEPT ![cur] = TRUE]
  /\ UNCHANGED <<vr, refers, cur>>
AliasSelf ==
  /\ alias[cur] # cur
  /\ alias' = [alias EXCEPT ![cur] = cur]
  /\ UNCHANGED <<vr, refers, req, cur>>
(* refer loads the other namespace and maps the name when it is interned there and public *)
Refer(n) ==
  /\ n \notin refers[cur] \/ ~req[cur]
  /\ req' = [req EXCEPT ![cur] = TRUE]
  /\ refers' = IF V(Other(cur), n).ex /\ ~Private(Other(cur), n)
               THEN [refers EXCEPT ![cur] = @ \cup {n}] ELSE refers
  /\ UNCHANGED <<vr, alias, cur>>
AlterRoot(n) ==
  /\ AllowAlter /\ V(cur, n).ex /\ ~V(cur, n).alt
  /\ vr' = [vr EXCEPT ![<<cur, n>>].alt = TRUE]
  /\ UNCHANGED <<refers, alias, req, cur>>

(* ------------------------------ resolution (documented order) ----------------------- *)
(* a resolution is  <<"var", x, n>> | <<"code", UNRES | PRIV | AMB | ANY>> | <<"local">>                 *)
RVar(x, n) == <<"var", x, n>>
RCode(c) == <<"code", c, "-">>
IsVar(r) == r[1] = "var"

(* bare symbol: interns of the current namespace, then its refers (a Var that is private to another   *)
(* namespace is unreachable), then what every namespace refers from the core library                  *)
ResolveBare(n) ==
  IF V(cur, n).ex THEN RVar(cur, n)
  ELSE IF n \in refers[cur] THEN (IF Private(Other(cur), n) THEN RCode(PRIV) ELSE RVar(Other(cur), n))
  ELSE IF n \in Ambient THEN RCode(AMB)
  ELSE RCode(UNRES)

(* x/n: the Var interned in x under that name; private Vars only from their own namespace.  Whether x/n  *)
(* also finds a name that x merely REFERS is not fixed by the property.                                  *)
ResolveIn(x, n) ==
  IF V(x, n).ex THEN (IF x # cur /\ Private(x, n) THEN RCode(PRIV) ELSE RVar(x, n))
  ELSE RCode(ANY)

Resolve(n, sp) ==
  CASE sp = "bare" -> ResolveBare(n)
    \* (whether a PRIVATE Var of the current namespace is reachable through an alias of the current namespace
    \* itself is not fixed by the property: the implementation refuses it)
    [] sp = "al"   -> IF alias[cur] = "-" THEN RCode(UNRES)
                      ELSE IF alias[cur] = cur /\ V(cur, n).ex /\ Private(cur, n) THEN RCode(ANY)
                      ELSE ResolveIn(alias[cur], n)
    [] sp = "fqA"  -> ResolveIn("A", n)
    [] sp = "fqB"  -> ResolveIn("B", n)
    [] sp = "loc"  -> <<"local", "-", "-">>
    [] sp = "var"  -> (IF ResolveBare(n) = RCode(PRIV) THEN RCode(ANY) ELSE ResolveBare(n))   \* (var n) is not a read
    [] sp = "bind" -> ResolveBare(n)
    [] sp = "redef" -> ResolveBare(n)
    [] sp = "fqp"  -> ResolveIn(cur, n)

(* ------------------------------ what a read may yield -------------------------------- *)
(* plain Var, direct linking: the value last given by def -- a root mutation may or may not be seen;   *)
(* dynamic / redef Vars, and every Var under var indirection: the root as it is now                     *)
Indirect(x, n, m) == m = "i" \/ V(x, n).fl \in {"dyn", "redef"}
ValueSet(x, n, m) == IF Indirect(x, n, m) THEN {Root(x, n)} ELSE {LastDef(x, n), Root(x, n)}

Req(n, sp, m) ==
  LET r == Resolve(n, sp) IN
  CASE sp = "loc" -> {LOCALV}
    [] sp = "var" -> IF IsVar(r) THEN {Ident(r[2], r[3])} ELSE {r[2]}
    [] sp = "bind" -> IF IsVar(r) /\ V(r[2], r[3]).fl = "dyn" THEN {BOUNDV} ELSE {ANY}
    \* a value given by a thread binding is what a read sees until the binding form is left, also when the root
    \* is given again by def meanwhile (a dynamic Var of the current namespace, def-ed again as dynamic)
    [] sp = "redef" -> IF IsVar(r) /\ r[2] = cur /\ V(r[2], r[3]).fl = "dyn" THEN {BOUNDV} ELSE {ANY}
    [] OTHER -> IF IsVar(r) THEN ValueSet(r[2], r[3], m) ELSE {r[2]}

(* ------------------------------ properties of the required level --------------------- *)
TypeOK == /\ cur \in NSS
          /\ \A x \in NSS : refers[x] \subseteq Names /\ (alias[x] = Other(x) => req[x])
          /\ \A p \in NSS \X Names : vr[p].ex \/ vr[p] = NoVar
(* two different names never denote the same Var, whatever the spelling *)
DistinctNamesDistinctVars ==
  \A n1 \in Names : \A s1 \in {"bare", "al", "fqA", "fqB"} :
     LET r1 == Resolve(n1, s1) IN
       IsVar(r1) => \A n2 \in Names \ {n1} : \A s2 \in {"bare", "al", "fqA", "fqB"} : Resolve(n2, s2) # r1
(* bare (interned or referred), alias-qualified and fully qualified spellings of one name that reach a  *)
(* Var of the same namespace reach the same Var                                                          *)
SameVarAllSpellings ==
  \A n \in Names : \A s1 \in {"bare", "al", "fqA", "fqB"} :
     LET r1 == Resolve(n, s1) IN
       IsVar(r1) => \A s2 \in {"bare", "al", "fqA", "fqB"} :
                      LET r2 == Resolve(n, s2) IN (IsVar(r2) /\ r1[2] = r2[2]) => r1 = r2
(* locals shadow Vars *)
LocalsShadow == \A n \in Names : \A m \in Modes : Req(n, "loc", m) = {LOCALV}
(* a qualified symbol is not shadowed by a local of the same name *)
QualifiedIgnoresLocals == \A n \in Names : \A m \in Modes :
                             Req(n, "fqp", m) = Req(n, IF cur = "A" THEN "fqA" ELSE "fqB", m)
(* a private Var is a compile error from the other namespace, however it is spelled *)
PrivateUnreachable ==
  \A n \in Names : \A sp \in {"bare", "al", "fqA", "fqB"} : \A m \in Modes :
     LET x == Other(cur) IN
       (V(x, n).ex /\ Private(x, n) /\ ~V(cur, n).ex) => Req(n, sp, m) \subseteq {PRIV, UNRES, ANY, AMB}
(* reading a plain Var whose root was only ever given by def yields lastDef in both linking modes *)
DefOnlyModesAgree ==
  \A n \in Names : \A sp \in {"bare", "al", "fqA", "fqB"} :
     LET r == Resolve(n, sp) IN
       (IsVar(r) /\ ~V(r[2], r[3]).alt) => /\ Req(n, sp, "d") = Req(n, sp, "i")
                                          /\ Req(n, sp, "d") = {LastDef(r[2], r[3])}
=====================================================================================
