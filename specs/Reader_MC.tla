--------------------------------- MODULE Reader_MC ---------------------------------
(* Design check of Reader.tla.                                                              *)
(*  1. Class / line-ending independence: two automata run in lock-step; the first reads the *)
(*     first representative of every character class with LF line ends, the second may read *)
(*     the second representative (g/z, 1/7, space/comma, e-acute/CJK) and CRLF or CR for LF. *)
(*     Their verdicts, forms (modulo the substitution), spans and positions must agree:     *)
(*     this is what entitles the driver to derive the 2nd and 3rd concretisation of every   *)
(*     enumerated string from one TLC table.                                                *)
(*  2. Span arithmetic: cutting the predicted span of every finished collection / symbol    *)
(*     out of the text and running a fresh automaton on it yields exactly that form.        *)
(* With CRIsNewline = FALSE (Reader_MCneg.cfg) check 1 must FAIL (anti-vacuity).             *)
EXTENDS Reader

AlphaM == <<40, 41, 123, 125, 34, 92, 35, 39, 94, 59, 58, 103, 49, 32, 10>>
VARIABLES s2, aftercr
mvars == <<text, s, s2, aftercr>>

Rep == [c \in {103, 49, 32, 233} |-> CASE c = 103 -> 122 [] c = 49 -> 55 [] c = 32 -> 44 [] OTHER -> 20013]

InitMC == text = <<>> /\ s = S0 /\ s2 = S0 /\ aftercr = FALSE
StepSame(c) == /\ ~(aftercr /\ c = LF)
               /\ s' = Consume(s, c) /\ s2' = Consume(s2, c) /\ aftercr' = FALSE
StepRep(c) == /\ c \in DOMAIN Rep
              /\ s' = Consume(s, c) /\ s2' = Consume(s2, Rep[c]) /\ aftercr' = FALSE
(* a character literal \<CR> would split the pair: \<LF> and \<CR><LF> are different programs *)
StepCRLF(c) == /\ c = LF /\ ~(s.err = "none" /\ s.tok.k = "chr" /\ s.tok.t = <<>>)
               /\ s' = Consume(s, LF) /\ s2' = Consume(Consume(s2, CR), LF) /\ aftercr' = FALSE
StepCR(c) == /\ c = LF
             /\ s' = Consume(s, LF) /\ s2' = Consume(s2, CR) /\ aftercr' = TRUE
NextMC == /\ Len(text) < MaxLen
          /\ \E i \in 1..Len(Alphabet) :
               /\ text' = Append(text, Alphabet[i])
               /\ (StepSame(Alphabet[i]) \/ StepRep(Alphabet[i]) \/ StepCRLF(Alphabet[i]) \/ StepCR(Alphabet[i]))
SpecMC == InitMC /\ [][NextMC]_mvars

Back == [c \in {122, 55, 44, 20013} |-> CASE c = 122 -> 103 [] c = 55 -> 49 [] c = 44 -> 32 [] OTHER -> 233]
RECURSIVE NormT(_)
NormT(t) == IF t = <<>> THEN <<>>
            ELSE IF Head(t) = CR THEN (IF Len(t) > 1 /\ t[2] = LF THEN NormT(Tail(t)) ELSE <<LF>> \o NormT(Tail(t)))
            ELSE <<(IF Head(t) \in DOMAIN Back THEN Back[Head(t)] ELSE Head(t))>> \o NormT(Tail(t))
RECURSIVE NormF(_)
NormF(f) == [k |-> f.k, t |-> IF f.w = "syn" THEN f.t ELSE NormT(f.t), xs |-> [i \in 1..Len(f.xs) |-> NormF(f.xs[i])],
             sp |-> f.sp, so |-> f.so, ex |-> f.ex, w |-> f.w,
             m |-> [i \in 1..Len(f.m) |-> <<NormF(f.m[i][1]), NormF(f.m[i][2])>>]]
NormR(r) == [al |-> r.al, why |-> r.why, free |-> r.free, forms |-> [i \in 1..Len(r.forms) |-> NormF(r.forms[i])]]

ClassIndependent == /\ NormR(EOI(s)) = NormR(EOI(s2))
                    /\ s.l = s2.l /\ s.c = s2.c /\ s.err = s2.err

RECURSIVE SubForms(_)
SubForms(f) == {f} \cup UNION {SubForms(f.xs[i]) : i \in 1..Len(f.xs)}
                   \cup UNION {SubForms(f.m[i][1]) \cup SubForms(f.m[i][2]) : i \in 1..Len(f.m)}
SpanReread ==
  s.err = "none" =>
    \A i \in 1..Len(s.forms) : \A f \in SubForms(s.forms[i]) :
       f.so = "req" =>
         LET r == EOI(Run(S0, SubSeq(text, f.of[1] + 1, f.of[2]))) IN
           "ok" \in r.al /\ Len(r.forms) = 1 /\ C1(r.forms[1]) = C1(f)
(* anti-vacuity of SpanReread: some state has a nested form with a required span on a later line *)
PosSaneMC == s.o = Len(text)
===================================================================================
