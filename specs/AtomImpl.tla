--------------------------------- MODULE AtomImpl ---------------------------------
(* C12 -- the atom as built (basilisp.core swap!/reset!/... over lang/atom.py):         *)
(*                                                                                    *)
(*   read the state (under the lock) -> compute f -> validate -> compare-and-set under *)
(*   the lock -> on failure start over, on success notify the watch -> return          *)
(*                                                                                    *)
(* One action per step; the RLock is a variable and the compare-and-set is split into  *)
(* acquire / compare / set / release, so that TLC explores what the lock protects.     *)
(* The required specification (Atom.tla: val, pend) runs in lock step: at each point   *)
(* where the mechanism is supposed to take effect the abstract Lin step is taken, and  *)
(* invariants compare the two (simulation): same value, same results, same watch       *)
(* arguments.  Termination is checked under weak fairness.                             *)
(*                                                                                    *)
(* Stored values carry a version stamp: two reads are the *identical* object iff the   *)
(* stamps agree.  CasIdentityFirst = FALSE is the deviation Dev_CasByEquality of the   *)
(* pinned tree (comparison with != only: a value not equal to itself never matches);   *)
(* UseLock = FALSE removes the lock (a mutant the design check must reject).           *)
EXTENDS Integers, Sequences, FiniteSets, TLC

CONSTANTS Threads, Progs, InitVal, Validator, Watching, CasIdentityFirst, UseLock

VARIABLES val, pend,                 \* required specification (Atom.tla)
          ival, ver, lock,           \* the cell as built: value, identity stamp, RLock owner (0 = free)
          pc, prog, cur, new, ires,  \* per thread: control point, remaining calls, value read, value to install, result
          werr                       \* a watch was called with arguments that are not the transition made
INSTANCE Atom
vars == <<val, pend, ival, ver, lock, pc, prog, cur, new, ires, werr>>

PyEq(x, y) == x = y /\ x.ty # "nan"
Match(c) == IF CasIdentityFirst THEN (c.ver = ver \/ PyEq(ival, c.v)) ELSE PyEq(ival, c.v)
AbsLin(t) == ALin(t, Validator)
WillInstall(t) == Apply(pend[t], val, Validator).inst

Init == /\ AInit(InitVal) /\ ival = InitVal /\ ver = 0 /\ lock = 0 /\ werr = FALSE
        /\ prog \in [Threads -> Progs]
        /\ pc = [t \in Threads |-> "idle"]
        /\ cur = [t \in Threads |-> [v |-> NilV, ver |-> -1]]
        /\ new = [t \in Threads |-> NilV]
        /\ ires = [t \in Threads |-> NilV]

Call(t) == /\ pc[t] = "idle" /\ prog[t] # <<>>
           /\ LET c == Head(prog[t]) IN
                /\ ACall(t, c, Watching)
                /\ pc' = [pc EXCEPT ![t] = IF c.op = "cas" THEN "validate" ELSE "read"]
                /\ new' = [new EXCEPT ![t] = IF c.op = "cas" THEN c.b ELSE NilV]
                /\ cur' = [cur EXCEPT ![t] = IF c.op = "cas" THEN [v |-> c.a, ver |-> -1] ELSE @]
           /\ prog' = [prog EXCEPT ![t] = Tail(@)]
           /\ UNCHANGED <<ival, ver, lock, ires, werr>>

(* deref under the lock: one atomic step (possible when the lock is free).  A call that is not *)
(* going to install anything (deref; f raises; validator rejects) takes effect at this read.   *)
Read(t) == /\ pc[t] = "read" /\ (UseLock => lock = 0)
           /\ cur' = [cur EXCEPT ![t] = [v |-> ival, ver |-> ver]]
           /\ IF pend[t].op = "deref"
                THEN AbsLin(t) /\ ires' = [ires EXCEPT ![t] = ival] /\ pc' = [pc EXCEPT ![t] = "ret"]
                ELSE /\ (IF ~pend[t].lin /\ ~WillInstall(t) THEN AbsLin(t) ELSE UNCHANGED <<val, pend>>)
                     /\ ires' = ires /\ pc' = [pc EXCEPT ![t] = "compute"]
           /\ UNCHANGED <<ival, ver, lock, prog, new, werr>>

Compute(t) == /\ pc[t] = "compute"
              /\ LET c == pend[t] IN
                   IF c.op \in {"swap", "swapvals"}
                     THEN LET r == F(c.f, cur[t].v) IN
                            IF r.ok THEN /\ new' = [new EXCEPT ![t] = r.v] /\ pc' = [pc EXCEPT ![t] = "validate"]
                                         /\ ires' = ires
                                    ELSE /\ new' = new /\ pc' = [pc EXCEPT ![t] = "ret"]
                                         /\ ires' = [ires EXCEPT ![t] = ExcV("fthrow")]
                     ELSE /\ new' = [new EXCEPT ![t] = c.a] /\ pc' = [pc EXCEPT ![t] = "validate"] /\ ires' = ires
              /\ UNCHANGED <<val, pend, ival, ver, lock, prog, cur, werr>>

Validate(t) == /\ pc[t] = "validate"
               /\ IF Valid(Validator, new[t])
                    THEN /\ pc' = [pc EXCEPT ![t] = "acquire"] /\ ires' = ires /\ UNCHANGED <<val, pend>>
                    ELSE /\ pc' = [pc EXCEPT ![t] = "ret"]
                         /\ ires' = [ires EXCEPT ![t] = ExcV("invalid")]
                         \* a rejected compare-and-set! takes effect here (it never looks at the state)
                         /\ (IF ~pend[t].lin THEN AbsLin(t) ELSE UNCHANGED <<val, pend>>)
               /\ UNCHANGED <<ival, ver, lock, prog, cur, new, werr>>

Acquire(t) == /\ pc[t] = "acquire" /\ (UseLock => lock = 0)
              /\ lock' = IF UseLock THEN t ELSE lock
              /\ pc' = [pc EXCEPT ![t] = "compare"]
              /\ UNCHANGED <<val, pend, ival, ver, prog, cur, new, ires, werr>>

(* a failed user-level compare-and-set! takes effect at the comparison *)
Compare(t) == /\ pc[t] = "compare"
              /\ IF Match(cur[t])
                   THEN pc' = [pc EXCEPT ![t] = "set"] /\ UNCHANGED <<val, pend, ires>>
                   ELSE /\ pc' = [pc EXCEPT ![t] = "relfail"]
                        /\ IF pend[t].op = "cas"
                             THEN AbsLin(t) /\ ires' = [ires EXCEPT ![t] = BoolV(FALSE)]
                             ELSE UNCHANGED <<val, pend, ires>>
              /\ UNCHANGED <<ival, ver, lock, prog, cur, new, werr>>

(* the store: where every call that installs a value takes effect *)
Set(t) == /\ pc[t] = "set"
          /\ ival' = new[t] /\ ver' = ver + 1
          /\ AbsLin(t)
          /\ ires' = [ires EXCEPT ![t] = CASE pend[t].op \in {"swap", "reset"} -> new[t]
                                           [] pend[t].op \in {"swapvals", "resetvals"} -> PairV(new[t], cur[t].v)
                                           [] pend[t].op = "cas" -> BoolV(TRUE)]
          /\ pc' = [pc EXCEPT ![t] = "relok"]
          /\ UNCHANGED <<lock, prog, cur, new, werr>>

Release(t) == /\ pc[t] \in {"relok", "relfail"}
              /\ lock' = IF UseLock THEN 0 ELSE lock
              /\ pc' = [pc EXCEPT ![t] = IF pc[t] = "relok" THEN (IF Watching THEN "notify" ELSE "ret")
                                         ELSE IF pend[t].op = "cas" THEN "ret" ELSE "read"]
              /\ UNCHANGED <<val, pend, ival, ver, prog, cur, new, ires, werr>>

Notify(t) == /\ pc[t] = "notify"
             /\ AWatch(t, pend[t].old, pend[t].new)
             /\ werr' = (werr \/ cur[t].v # pend[t].old \/ new[t] # pend[t].new)
             /\ pc' = [pc EXCEPT ![t] = "ret"]
             /\ UNCHANGED <<ival, ver, lock, prog, cur, new, ires>>

Return(t) == /\ pc[t] = "ret"
             /\ ARet(t, pend[t].res)
             /\ pc' = [pc EXCEPT ![t] = "idle"]
             /\ UNCHANGED <<ival, ver, lock, prog, cur, new, ires, werr>>

Step(t) == Call(t) \/ Read(t) \/ Compute(t) \/ Validate(t) \/ Acquire(t) \/ Compare(t) \/ Set(t)
           \/ Release(t) \/ Notify(t) \/ Return(t)
AllDone == \A t \in Threads : pc[t] = "idle" /\ prog[t] = <<>>
Next == (\E t \in Threads : Step(t)) \/ (AllDone /\ UNCHANGED vars)
Spec == Init /\ [][Next]_vars /\ \A t \in Threads : WF_vars(Step(t))

(* ---- what TLC checks ---------------------------------------------------------------- *)
SameValue == val = ival                                   \* no lost / duplicated / phantom update
ResultsTruthful == \A t \in Threads : pc[t] = "ret" => (pend[t].lin /\ ires[t] = pend[t].res)
WatchIsTransition == ~werr
ValidAlways == Valid(Validator, ival) \/ ival = InitVal
LockDiscipline == \A t \in Threads : (UseLock /\ pc[t] \in {"compare", "set", "relok", "relfail"}) => lock = t
Termination == <>[]AllDone
===================================================================================
