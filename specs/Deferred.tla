---------------------------------- MODULE Deferred ----------------------------------
(* C13 -- required behaviour of a delay, a promise and a future (one object per behaviour).   *)
(*                                                                                          *)
(* Every call (deref [timed], realized?, deliver) takes effect at one silent instant (Lin,   *)
(* Expire, Publish) between its invocation and its return and returns what was computed      *)
(* there.  Harness-visible events besides call/ret: the start and the end of a run of the     *)
(* body (delay: by the forcing thread; future: by the executor's worker).                     *)
(*                                                                                          *)
(*   delay    st: pending -> done | failed.  A run of the body may start only inside a        *)
(*            pending deref, while st = pending and nobody owns the delay (owner = 0): at most *)
(*            one thread at a time, never again after a run has returned.  A run that returns  *)
(*            v is published by its thread (Publish: st = done, val = v) before that deref     *)
(*            returns v; every other deref takes effect after that and returns v too.  A run   *)
(*            that raises ends the forcing deref with that exception; the property leaves     *)
(*            open whether the delay may then be forced again (basilisp) or remembers the      *)
(*            exception (Clojure): both are allowed.                                           *)
(*   promise  st: pending -> done.  The first deliver to take effect sets the value, later     *)
(*            ones change nothing; deref takes effect only when delivered; a timed deref may   *)
(*            instead Expire -- only while nothing has been delivered (virtual time: when the  *)
(*            deadline passes is the scheduler's choice).                                      *)
(*   future   st: pending -> running -> finishing -> done.  deref takes effect only when done  *)
(*            and returns the body's value or re-raises WHATEVER it raised; a timed deref may  *)
(*            Expire while not done.                                                           *)
(*   realized? returns st \in {done, failed}, which is monotone (RealizedMonotone).            *)
(*                                                                                          *)
(* Devs is the set of enabled *named deviations*: {} is the required behaviour.  The two       *)
(* deviations of the pinned tree are described here at the level of the specification;        *)
(* DeferredImpl (the mechanism as built) is checked to be explained by exactly these.          *)
(*   "DelayBodyInRetryLoop"        a deref that began before the delay was realized may run    *)
(*                                 the body although another run is under way or has returned; *)
(*                                 the first finished run to be installed wins.                *)
(*   "FutureSwallowsTimeoutError"  deref of a future whose body raised TimeoutError returns    *)
(*                                 the timeout value (nil when untimed) instead of re-raising. *)
EXTENDS Integers, Sequences, FiniteSets, TLC

CONSTANTS Threads, Devs

(* ---- values: tagged records, all of one shape ------------------------------------------- *)
IntV(i) == [ty |-> "int", i |-> i]
NilV == [ty |-> "nil", i |-> 0]
NoneV == [ty |-> "none", i |-> 0]       \* "no value yet" (never returned)
TovV == [ty |-> "tov", i |-> 0]         \* the timeout value passed to a timed deref
BoolV(b) == [ty |-> "bool", i |-> IF b THEN 1 ELSE 0]
ExcV(c) == [ty |-> "exc", i |-> c]      \* 1: the harness' own exception, 2: TimeoutError
IsExc(v) == v.ty = "exc"

VARIABLES obj,     \* [kind, st, val, owner, runners]
          pend     \* per thread: the pending call or None
dvars == <<obj, pend>>

None == [op |-> "none"]
Realized(o) == o.st \in {"done", "failed"}

DInit(kind) == /\ obj = [kind |-> kind, st |-> "pending", val |-> NilV, owner |-> 0, runners |-> {}]
               /\ pend = [t \in Threads |-> None]

(* c = [op, timed, a]; np remembers that the object was not realized when the call began     *)
DCall(t, c) == /\ pend[t] = None
               /\ pend' = [pend EXCEPT ![t] = [op |-> c.op, timed |-> c.timed, a |-> c.a, lin |-> FALSE,
                                                res |-> NilV, np |-> ~Realized(obj), tmp |-> NoneV]]
               /\ UNCHANGED obj

Open(t) == pend[t] # None /\ ~pend[t].lin
Done(t, r) == [pend EXCEPT ![t] = [@ EXCEPT !.lin = TRUE, !.res = r]]

(* ---- the silent effect of a call ---------------------------------------------------------- *)
LinEn(t) == /\ Open(t)
            /\ CASE pend[t].op = "realized" -> TRUE
                 [] pend[t].op = "deliver" -> obj.kind = "promise"
                 [] pend[t].op = "deref" -> Realized(obj)
                 [] OTHER -> FALSE
DLin(t) == /\ LinEn(t)
           /\ CASE pend[t].op = "realized" -> obj' = obj /\ pend' = Done(t, BoolV(Realized(obj)))
                [] pend[t].op = "deliver" ->
                     /\ obj' = IF obj.st = "pending" THEN [obj EXCEPT !.st = "done", !.val = pend[t].a] ELSE obj
                     /\ pend' = Done(t, NilV)
                [] pend[t].op = "deref" -> obj' = obj /\ pend' = Done(t, obj.val)

(* a timed deref of a promise / future gives up: only while the object is not realized *)
ExpireEn(t) == /\ Open(t) /\ pend[t].op = "deref" /\ pend[t].timed
               /\ obj.kind \in {"promise", "future"} /\ ~Realized(obj)
DExpire(t) == ExpireEn(t) /\ pend' = Done(t, TovV) /\ UNCHANGED obj

(* ---- delay: runs of the body ---------------------------------------------------------------- *)
BodyStartEn(t) == /\ obj.kind = "delay" /\ Open(t) /\ pend[t].op = "deref" /\ pend[t].tmp = NoneV
                  /\ obj.st = "pending" /\ obj.owner = 0 /\ obj.runners = {}
DBodyStart(t) == BodyStartEn(t) /\ obj' = [obj EXCEPT !.owner = t, !.runners = {t}] /\ UNCHANGED pend

BodyEndEn(t) == obj.kind = "delay" /\ t \in obj.runners /\ Open(t)
(* remember = TRUE: a run that raised is remembered (Clojure); FALSE: the delay can be forced again *)
DBodyEnd(t, out, remember) ==
  /\ BodyEndEn(t)
  /\ IF IsExc(out)
       THEN /\ pend' = Done(t, out)
            /\ obj' = IF obj.owner = t /\ remember
                        THEN [obj EXCEPT !.runners = @ \ {t}, !.owner = 0, !.st = "failed", !.val = out]
                        ELSE [obj EXCEPT !.runners = @ \ {t}, !.owner = IF @ = t THEN 0 ELSE @]
       ELSE /\ pend' = [pend EXCEPT ![t] = [@ EXCEPT !.tmp = out]]
            /\ obj' = [obj EXCEPT !.runners = @ \ {t}]

PublishEn(t) == /\ obj.kind = "delay" /\ Open(t) /\ pend[t].tmp # NoneV /\ obj.st = "pending"
                /\ (obj.owner = t \/ "DelayBodyInRetryLoop" \in Devs)
DPublish(t) == /\ PublishEn(t)
               /\ obj' = [obj EXCEPT !.st = "done", !.val = pend[t].tmp, !.owner = IF @ = t THEN 0 ELSE @]
               /\ pend' = Done(t, pend[t].tmp)

(* Dev_DelayBodyInRetryLoop *)
DevStartEn(t) == /\ "DelayBodyInRetryLoop" \in Devs
                 /\ obj.kind = "delay" /\ Open(t) /\ pend[t].op = "deref" /\ pend[t].tmp = NoneV
                 /\ pend[t].np /\ t \notin obj.runners
DevBodyStart(t) == DevStartEn(t) /\ obj' = [obj EXCEPT !.runners = @ \cup {t}] /\ UNCHANGED pend

(* ---- future: the body runs in the executor's worker ------------------------------------------ *)
FStartEn == obj.kind = "future" /\ obj.st = "pending"
FBodyStart == FStartEn /\ obj' = [obj EXCEPT !.st = "running"] /\ UNCHANGED pend
FEndEn == obj.kind = "future" /\ obj.st = "running"
FBodyEnd(out) == FEndEn /\ obj' = [obj EXCEPT !.st = "finishing", !.val = out] /\ UNCHANGED pend
FPublishEn == obj.kind = "future" /\ obj.st = "finishing"
FPublish == FPublishEn /\ obj' = [obj EXCEPT !.st = "done"] /\ UNCHANGED pend

(* Dev_FutureSwallowsTimeoutError *)
SwallowEn(t) == /\ "FutureSwallowsTimeoutError" \in Devs
                /\ obj.kind = "future" /\ Open(t) /\ pend[t].op = "deref"
                /\ obj.st = "done" /\ obj.val = ExcV(2)
DevSwallow(t) == SwallowEn(t) /\ pend' = Done(t, IF pend[t].timed THEN TovV ELSE NilV) /\ UNCHANGED obj

(* ---- return ------------------------------------------------------------------------------------ *)
RetEn(t, res) == pend[t] # None /\ pend[t].lin /\ pend[t].res = res
DRet(t, res) == RetEn(t, res) /\ pend' = [pend EXCEPT ![t] = None] /\ UNCHANGED obj

(* ---- the property's clauses as state / action predicates over the required state --------------- *)
DelayOnceInv == /\ Cardinality(obj.runners) <= 1
                /\ (Realized(obj) => obj.runners = {})
RealizedMonotoneAct == Realized(obj) => Realized(obj')
ValueStableAct == Realized(obj) => (obj'.val = obj.val /\ obj'.st = obj.st)
=====================================================================================
