CONSTANTS Tags <- TagsK  Classes <- ClassesK  Bases <- BasesK  VecElems <- NoVecs  Dflt = "dflt"
          Edges <- EdgesK  PrefPairs <- PrefsK
          DevOrder = FALSE  DevClassAnc = TRUE  ResetOn <- AllOps  CheckHier = TRUE
INIT IInit
NEXT INextMut
VIEW HView
INVARIANT TypeOK
INVARIANT Acyclic
INVARIANT IsaOrder
INVARIANT HierConsistent
INVARIANT NoPreferConflict
INVARIANT ResolveSane
INVARIANT MapsExact
INVARIANT HierRefines
INVARIANT SearchSound
CHECK_DEADLOCK FALSE
