CONSTANTS MaxDepth = 3  SharedEnv = FALSE  NoEnv = FALSE  QualSpecial = FALSE  NestShares = FALSE
SPECIFICATION Spec
INVARIANT EvalAgrees
INVARIANT QuotedData
INVARIANT GensymFunction
INVARIANT GensymFresh
INVARIANT NsIrrelevant
INVARIANT AllQualified
INVARIANT DepthBound
CONSTRAINT Emit
CHECK_DEADLOCK FALSE
