INIT InitT
NEXT StepT
CONSTRAINT Diag
CHECK_DEADLOCK FALSE
