\* behaviour generation: every history of length <= 3 of one collision class (NAMES_CLASS)
CONSTANTS
  NameSeq <- ClassSeq
  Munge <- MungeAll
  Ambient <- AmbientCls
  Flags <- FlagsAll
  Toggle = TRUE
  AllowAlter = TRUE
  Definers = {"A", "B"}
  MaxLen = 3
SPECIFICATION GSpec
CONSTRAINT Emit
INVARIANT RefinesNoDev
CHECK_DEADLOCK FALSE
