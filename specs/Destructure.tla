-------------------------------- MODULE Destructure --------------------------------
(* C09 (second half) -- destructuring in let / fn / loop binds every name to exactly    *)
(* what nth, nthnext and get would return on the value.                                  *)
(*                                                                                       *)
(* Values and patterns are trees of tagged records.  Bind(p, v) is defined ONLY through  *)
(* the three model primitives Nth, NthNext, Get (their definition per value kind was     *)
(* established by probing the real nth / nthnext / get; the driver re-probes them on     *)
(* every run against the PRIM table emitted below before anything else is compared).     *)
(*                                                                                       *)
(* Documented vocabulary (docs/concepts.rst "Destructuring"):                            *)
(*   symbol | [p1 .. pn & name :as name] | {:keys [..] :ns/keys [..] :strs [..]          *)
(*   :syms [..] :ns/syms [..]  pattern key ..  :or {name default ..}  :as name}          *)
(*   and, for fn, a keyword-argument rest  (fn [.. & {map pattern}])  and a sequential   *)
(*   pattern in rest position (fn [.. & [p1 ..]]).                                       *)
(* Conventions                                                                           *)
(*   - a str value is the sequence of its characters (one-character strings); Nth on a   *)
(*     string yields a one-character string.  Names are built from character paths so   *)
(*     that the string keys of :strs / explicit string keys are character sequences too. *)
(*   - a value that satisfies seq? (list, lazy seq, cons ...) is kind "seq"; the driver  *)
(*     realises it in several concrete flavours.                                         *)
(*   - where the documentation is silent the outcome is "unspec" (whole binding) or a    *)
(*     name is bound to [ty |-> "any"] (that name only); the driver ignores both.        *)
EXTENDS Integers, Sequences, FiniteSets, TLC, Json

CONSTANTS Depth,      \* nesting depth of the enumerated patterns (1..3)
          Wide,       \* TRUE: slot alphabets of the inner levels are the full families, FALSE: reduced
          BWide,      \* TRUE: the second slot of two-slot shapes ranges over the reduced depth-1 family (10 patterns),
                      \*       FALSE: over three representatives
          OrOnNil     \* mutant switch (negative job): :or also applies when the value present is nil

(* ------------------------------- values ------------------------------------------- *)
Nil == [ty |-> "nil"]
AnyV == [ty |-> "any"]
Bo(b) == [ty |-> "bool", i |-> IF b THEN 1 ELSE 0]
I(i) == [ty |-> "int", i |-> i]
K(n) == [ty |-> "kw", n |-> n]                     \* n = "name" or "ns/name"
Y(n) == [ty |-> "sym", n |-> n]
St(s) == [ty |-> "str", s |-> s]                   \* s = sequence of pieces
VecV(xs) == [ty |-> "vec", xs |-> xs]
SeqV(xs) == [ty |-> "seq", xs |-> xs]
SetV(xs) == [ty |-> "set", xs |-> xs]              \* xs without duplicates; order irrelevant
MapV(ks, vs) == [ty |-> "map", ks |-> ks, vs |-> vs]   \* distinct keys; order irrelevant

POk(v) == [ok |-> TRUE, v |-> v]
PErr(c) == [ok |-> FALSE, v |-> [ty |-> "exc", c |-> c]]

(* ------------------------------- the yardstick ------------------------------------ *)
(* (nth v i nil): nil -> nil; vector / seq / string -> the element or nil when too short; *)
(* anything else (number, boolean, keyword, symbol, set, map) -> TypeError                *)
Nth(v, i) ==
  CASE v.ty = "nil" -> POk(Nil)
    [] v.ty \in {"vec", "seq"} -> POk(IF i < Len(v.xs) THEN v.xs[i + 1] ELSE Nil)
    [] v.ty = "str" -> POk(IF i < Len(v.s) THEN St(<<v.s[i + 1]>>) ELSE Nil)
    [] OTHER -> PErr("TypeError")

(* (nthnext v i): nil -> nil; anything seqable -> the seq of the elements from i on, nil *)
(* when there are none; not seqable (number, boolean, keyword, symbol) -> TypeError      *)
Elems(v) ==
  CASE v.ty \in {"vec", "seq", "set"} -> v.xs
    [] v.ty = "str" -> [j \in 1..Len(v.s) |-> St(<<v.s[j]>>)]
    [] v.ty = "map" -> [j \in 1..Len(v.ks) |-> VecV(<<v.ks[j], v.vs[j]>>)]
NthNext(v, i) ==
  CASE v.ty = "nil" -> POk(Nil)
    [] v.ty \in {"vec", "seq", "set", "str", "map"} ->
         LET xs == Elems(v) IN POk(IF i < Len(xs) THEN SeqV(SubSeq(xs, i + 1, Len(xs))) ELSE Nil)
    [] OTHER -> PErr("TypeError")

(* (get v k d): never raises; d unless v is a map containing k, a set containing k, or a *)
(* vector / string indexed by an integer k in range                                      *)
HasKey(v, k) ==
  CASE v.ty = "map" -> \E j \in 1..Len(v.ks) : v.ks[j] = k
    [] v.ty = "set" -> \E j \in 1..Len(v.xs) : v.xs[j] = k
    [] v.ty = "vec" -> k.ty = "int" /\ k.i >= 0 /\ k.i < Len(v.xs)
    [] v.ty = "str" -> k.ty = "int" /\ k.i >= 0 /\ k.i < Len(v.s)
    [] OTHER -> FALSE
Get(v, k, d) ==
  IF ~HasKey(v, k) THEN d
  ELSE CASE v.ty = "map" -> v.vs[CHOOSE j \in 1..Len(v.ks) : v.ks[j] = k]
         [] v.ty = "set" -> k
         [] v.ty = "vec" -> v.xs[k.i + 1]
         [] v.ty = "str" -> St(<<v.s[k.i + 1]>>)

(* ------------------------------- patterns ----------------------------------------- *)
PSym(n) == [p |-> "sym", n |-> n]
PVec(items, rest, as) == [p |-> "vec", items |-> items, rest |-> rest, as |-> as]      \* "" = absent
PMap(ents, ors, as) == [p |-> "map", ents |-> ents, ors |-> ors, as |-> as]
EKeys(ns, names) == [e |-> "keys", ns |-> ns, names |-> names]       \* :keys / :ns/keys
EStrs(names, chars) == [e |-> "strs", ns |-> "", names |-> names, chars |-> chars]   \* chars[j] = the pieces of names[j]
ESyms(ns, names) == [e |-> "syms", ns |-> ns, names |-> names]       \* :syms / :ns/syms
EBind(pat, key) == [e |-> "bind", pat |-> pat, key |-> key]          \* explicit  pattern key
Or(n, d) == [n |-> n, d |-> d]

Qual(ns, nm) == IF ns = "" THEN nm ELSE ns \o "/" \o nm

(* result of a binding: st = "ok" (env = sequence of [n, v]) | "err" (c = exception class) | "unspec" *)
ROk(env) == [st |-> "ok", env |-> env, c |-> ""]
RErr(c) == [st |-> "err", env |-> <<>>, c |-> c]
RUnspec == [st |-> "unspec", env |-> <<>>, c |-> ""]
Bd(n, v) == [n |-> n, v |-> v]

RECURSIVE Combine(_)
Combine(rs) ==            \* all parts are evaluated; every error class of the model is TypeError
  IF rs = <<>> THEN ROk(<<>>)
  ELSE LET h == Head(rs)  t == Combine(Tail(rs)) IN
       IF h.st = "unspec" \/ t.st = "unspec" THEN RUnspec
       ELSE IF h.st = "err" THEN h
       ELSE IF t.st = "err" THEN t
       ELSE ROk(h.env \o t.env)

(* a map built from alternating keys and values, later pairs win (hash-map) *)
RECURSIVE FromPairs(_, _, _)
FromPairs(xs, ks, vs) ==
  IF xs = <<>> THEN MapV(ks, vs)
  ELSE LET k == xs[1]  v == xs[2]  rest == SubSeq(xs, 3, Len(xs)) IN
       IF \E j \in 1..Len(ks) : ks[j] = k
         THEN LET j == CHOOSE j \in 1..Len(ks) : ks[j] = k IN FromPairs(rest, ks, [vs EXCEPT ![j] = v])
         ELSE FromPairs(rest, Append(ks, k), Append(vs, v))
Merge(m1, m2) ==          \* m2 wins
  LET flat == [j \in 1..(2 * Len(m2.ks)) |-> IF j % 2 = 1 THEN m2.ks[(j + 1) \div 2] ELSE m2.vs[j \div 2]]
  IN FromPairs(flat, m1.ks, m1.vs)

(* a value that satisfies seq? given to a map pattern is read as keyword arguments        *)
(* (test_core_macros.lpy let-associative-destructuring; Clojure does the same):           *)
(*   no element -> nil (the name of :as is then unspecified: nil here, {} in Clojure),    *)
(*   one element -> that element, an even number -> the map of the pairs, else unspecified *)
Coerce(v) ==
  IF v.ty # "seq" THEN [st |-> "ok", m |-> v, asv |-> v]
  ELSE IF Len(v.xs) = 0 THEN [st |-> "ok", m |-> Nil, asv |-> AnyV]
  ELSE IF Len(v.xs) = 1 THEN [st |-> "ok", m |-> v.xs[1], asv |-> v.xs[1]]
  ELSE IF Len(v.xs) % 2 = 0 THEN LET m == FromPairs(v.xs, <<>>, <<>>) IN [st |-> "ok", m |-> m, asv |-> m]
  ELSE [st |-> "unspec", m |-> Nil, asv |-> Nil]

(* keyword arguments of a fn (docs "Keyword Arguments"): key/value pairs, optionally      *)
(* followed by one map which is joined in and wins; a single map; nothing -> nil.          *)
(* Anything else (an odd number of non-map arguments) is not documented.                   *)
CollectKw(args) ==
  IF args = <<>> THEN [st |-> "ok", m |-> Nil]
  ELSE LET last == args[Len(args)]  front == SubSeq(args, 1, Len(args) - 1) IN
       IF last.ty = "map" /\ Len(front) % 2 = 0
         THEN [st |-> "ok", m |-> Merge(FromPairs(front, <<>>, <<>>), last)]
       ELSE IF Len(args) % 2 = 0 /\ last.ty # "map" THEN [st |-> "ok", m |-> FromPairs(args, <<>>, <<>>)]
       ELSE [st |-> "unspec", m |-> Nil]

HasOr(p, n) == \E j \in 1..Len(p.ors) : p.ors[j].n = n
OrOf(p, n) == p.ors[CHOOSE j \in 1..Len(p.ors) : p.ors[j].n = n].d
(* the value bound to a name taken directly from key k of m: (get m k) or (get m k default) *)
Direct(p, m, k, n) ==
  IF ~HasOr(p, n) THEN Get(m, k, Nil)
  ELSE IF OrOnNil /\ Get(m, k, Nil) = Nil THEN OrOf(p, n)          \* the mutant
  ELSE Get(m, k, OrOf(p, n))

RECURSIVE Bind(_, _), BindMapOn(_, _, _), BindEntry(_, _, _)
BindEntry(p, ent, m) ==
  CASE ent.e = "keys" -> ROk([j \in 1..Len(ent.names) |->
                              Bd(ent.names[j], Direct(p, m, K(Qual(ent.ns, ent.names[j])), ent.names[j]))])
    [] ent.e = "strs" -> ROk([j \in 1..Len(ent.names) |->
                              Bd(ent.names[j], Direct(p, m, St(ent.chars[j]), ent.names[j]))])
    [] ent.e = "syms" -> ROk([j \in 1..Len(ent.names) |->
                              Bd(ent.names[j], Direct(p, m, Y(Qual(ent.ns, ent.names[j])), ent.names[j]))])
    [] ent.e = "bind" -> IF ent.pat.p = "sym" THEN ROk(<<Bd(ent.pat.n, Direct(p, m, ent.key, ent.pat.n))>>)
                         ELSE Bind(ent.pat, Get(m, ent.key, Nil))
BindMapOn(p, m, asv) ==
  Combine([j \in 1..Len(p.ents) |-> BindEntry(p, p.ents[j], m)]
          \o <<IF p.as = "" THEN ROk(<<>>) ELSE ROk(<<Bd(p.as, asv)>>)>>)

Bind(p, v) ==
  CASE p.p = "sym" -> ROk(<<Bd(p.n, v)>>)
    [] p.p = "vec" ->
         LET n == Len(p.items)
             parts == [j \in 1..n |-> LET r == Nth(v, j - 1) IN
                                      IF r.ok THEN Bind(p.items[j], r.v) ELSE RErr(r.v.c)]
             rest == IF p.rest = "" THEN ROk(<<>>)
                     ELSE LET r == NthNext(v, n) IN IF r.ok THEN ROk(<<Bd(p.rest, r.v)>>) ELSE RErr(r.v.c)
             as == IF p.as = "" THEN ROk(<<>>) ELSE ROk(<<Bd(p.as, v)>>)          \* :as is the value itself
         IN Combine(parts \o <<rest, as>>)
    [] p.p = "map" ->
         LET co == Coerce(v) IN IF co.st = "unspec" THEN RUnspec ELSE BindMapOn(p, co.m, co.asv)

(* fn with a keyword-argument rest: (fn [& {..}] ..) applied to args *)
BindKw(p, args) == LET co == CollectKw(args) IN IF co.st = "unspec" THEN RUnspec ELSE BindMapOn(p, co.m, co.m)
(* fn with a sequential pattern in rest position: (fn [& [..]] ..) applied to args; the rest is nil when empty *)
BindRest(p, args) == Bind(p, IF args = <<>> THEN Nil ELSE SeqV(args))

(* all names of a pattern in order of appearance *)
RECURSIVE Names(_), Flat(_)
Flat(ss) == IF ss = <<>> THEN <<>> ELSE Head(ss) \o Flat(Tail(ss))
Names(p) ==
  CASE p.p = "sym" -> <<p.n>>
    [] p.p = "vec" -> Flat([j \in 1..Len(p.items) |-> Names(p.items[j])])
                      \o (IF p.rest = "" THEN <<>> ELSE <<p.rest>>) \o (IF p.as = "" THEN <<>> ELSE <<p.as>>)
    [] p.p = "map" -> Flat([j \in 1..Len(p.ents) |->
                              IF p.ents[j].e = "bind" THEN Names(p.ents[j].pat) ELSE p.ents[j].names])
                      \o (IF p.as = "" THEN <<>> ELSE <<p.as>>)
Lookup(env, n) == env[CHOOSE j \in 1..Len(env) : env[j].n = n].v
Bound(env, n) == \E j \in 1..Len(env) : env[j].n = n

(* ------------------------------- the enumerated patterns -------------------------- *)
(* names are derived from the path (prefix pre), so all names of a pattern are distinct  *)
Dflt(n) == K("d" \o n)                 \* the default of name n: occurs in no value
Wit(n) == K("w" \o n)                  \* the witness a conforming value holds for name n
NS == "n"                              \* the namespace of namespaced keys (the driver also realises it as
                                       \* the current namespace / an alias: ::keys, ::alias/keys)
NShapes == 9
RECURSIVE Pats(_, _, _), Shape(_, _, _, _), Join(_)
Join(cs) == IF cs = <<>> THEN "" ELSE Head(cs) \o Join(Tail(cs))      \* a name from its characters
(* pc = the path as a sequence of characters (a name is Join of it; a string key keeps the characters);
   family: "full" | "red" (reduced alphabets for inner slots) *)
Pats(d, pc, fam) ==
  {PSym(Join(pc))} \cup (IF d = 0 THEN {} ELSE UNION {Shape(k, d, pc, fam) : k \in 1..NShapes})
(* a default may itself be falsey: (get m k false) is not (get m k) *)
OrIfSym(a) == IF a.p = "sym" THEN {<<>>, <<Or(a.n, Dflt(a.n))>>, <<Or(a.n, Bo(FALSE))>>} ELSE {<<>>}
Shape(k, d, pc, fam) ==
  LET full == fam = "full"
      pre == Join(pc)
      inner == IF Wide \/ d <= 1 THEN fam ELSE "red"
      A == Pats(d - 1, pc \o <<"a">>, inner)
      bc == pc \o <<"b">>
      bp == Join(bc)
      B == IF d = 1 THEN {PSym(bp)}
           ELSE IF d = 2 /\ full /\ BWide THEN Pats(1, bc, "red")
           ELSE {PSym(bp), PVec(<<PSym(bp \o "a")>>, bp \o "r", ""), PMap(<<EKeys("", <<bp \o "k", bp \o "l">>)>>, <<>>, "")}
      r == pre \o "r"  s == pre \o "s"  x == pre \o "x"
      k1 == pre \o "k"  k2 == pre \o "l"  t1 == pre \o "t"  y1 == pre \o "y"  z1 == pre \o "z"
      xs == St(pc \o <<"x">>)  vs == St(pc \o <<"v">>)  tc == pc \o <<"t">>
  IN
  CASE k = 1 -> {PVec(<<>>, rr, ss) : rr \in {"", r}, ss \in (IF full THEN {"", s} ELSE {""})}
    [] k = 2 -> {PVec(<<a>>, rr, ss) : a \in A, rr \in (IF full THEN {"", r} ELSE {r}), ss \in (IF full THEN {"", s} ELSE {""})}
    [] k = 3 -> {PVec(<<a, b>>, "", "") : a \in A, b \in B}
    [] k = 4 -> IF full THEN {PVec(<<a, b>>, r, s) : a \in A, b \in B} ELSE {}
    [] k = 5 -> IF full THEN {PVec(<<PSym(x), a>>, rr, "") : a \in A, rr \in {"", r}} ELSE {}
    [] k = 6 -> {PMap(<<EKeys("", <<k1, k2>>)>>, <<>>, ""),
                 PMap(<<EKeys("", <<k1, k2>>)>>, <<Or(k2, Dflt(k2))>>, s)}
                \cup (IF full THEN
                      {PMap(<<>>, <<>>, ""), PMap(<<>>, <<>>, s),
                       PMap(<<EKeys(NS, <<k1>>), EStrs(<<t1>>, <<tc>>), ESyms("", <<y1>>), ESyms(NS, <<z1>>)>>, <<>>, ""),
                       PMap(<<EKeys(NS, <<k1>>), EStrs(<<t1>>, <<tc>>), ESyms("", <<y1>>), ESyms(NS, <<z1>>)>>,
                            <<Or(k1, Dflt(k1)), Or(t1, Dflt(t1)), Or(y1, Dflt(y1)), Or(z1, Dflt(z1))>>, s)}
                      ELSE {})
    [] k = 7 -> {PMap(<<EBind(a, key)>>, ors, "") :
                   a \in A, key \in (IF full THEN {K(x), K(Qual(NS, x)), xs, Y(x), I(0)} ELSE {K(x)}),
                   ors \in {<<>>}}
                \cup UNION {{PMap(<<EBind(a, key)>>, ors, s) : ors \in OrIfSym(a) \ {<<>>},
                                key \in (IF full THEN {K(x), xs, Y(x), I(0)} ELSE {K(x)})} : a \in A}
    \* (two equal binding forms -- only the nameless [] -- would be a duplicate key of the map literal: not writable)
    [] k = 8 -> UNION {{PMap(<<EBind(a, K(x)), EBind(b, K(pre \o "v"))>>, <<>>, "") : b \in B \ {a}} : a \in A}
    [] k = 9 -> IF full THEN UNION {{PMap(<<EKeys("", <<k1>>), EBind(a, K(x)), EBind(b, vs)>>,
                                          <<Or(k1, Dflt(k1))>>, s) : b \in B \ {a}} : a \in A}
                ELSE {}

(* ------------------------------- values derived from a pattern -------------------- *)
RECURSIVE Conf(_), Vals(_, _), ConfEntKeys(_), ConfEntVals(_)
ConfEntKeys(ent) ==
  CASE ent.e = "keys" -> [j \in 1..Len(ent.names) |-> K(Qual(ent.ns, ent.names[j]))]
    [] ent.e = "strs" -> [j \in 1..Len(ent.names) |-> St(ent.chars[j])]
    [] ent.e = "syms" -> [j \in 1..Len(ent.names) |-> Y(Qual(ent.ns, ent.names[j]))]
    [] ent.e = "bind" -> <<ent.key>>
ConfEntVals(ent) ==
  IF ent.e = "bind" THEN <<Conf(ent.pat)>> ELSE [j \in 1..Len(ent.names) |-> Wit(ent.names[j])]
(* the conforming value: every leaf name finds its own witness; vectors carry two more elements than the pattern
   names, maps one more key.  A map pattern whose only explicit keys are integers conforms to a vector as well. *)
Conf(p) ==
  CASE p.p = "sym" -> Wit(p.n)
    [] p.p = "vec" -> VecV([j \in 1..Len(p.items) |-> Conf(p.items[j])] \o <<I(7), I(8)>>)
    [] p.p = "map" -> MapV(Flat([j \in 1..Len(p.ents) |-> ConfEntKeys(p.ents[j])]) \o <<K("zz")>>,
                           Flat([j \in 1..Len(p.ents) |-> ConfEntVals(p.ents[j])]) \o <<I(9)>>)

Wrong == {Nil, I(5), Bo(FALSE), K("q"), Y("q"), St(<<"u", "v", "w">>), St(<<>>),
          SetV(<<>>), SetV(<<K("q")>>), MapV(<<>>, <<>>), VecV(<<>>), SeqV(<<>>)}
(* replace the value at slot position j of a vector / at key index j of a map *)
VecWith(c, j, w) == VecV([c.xs EXCEPT ![j] = w])
MapWith(c, j, w) == MapV(c.ks, [c.vs EXCEPT ![j] = w])
MapDrop(c, j) == MapV(SubSeq(c.ks, 1, j - 1) \o SubSeq(c.ks, j + 1, Len(c.ks)),
                      SubSeq(c.vs, 1, j - 1) \o SubSeq(c.vs, j + 1, Len(c.vs)))
Alternating(ks, vs) == [j \in 1..(2 * Len(ks)) |-> IF j % 2 = 1 THEN ks[(j + 1) \div 2] ELSE vs[j \div 2]]
(* index (into the conforming map) of the key that entry j, name index i refers to *)
RECURSIVE KeyOffset(_, _)
KeyOffset(p, j) == IF j = 1 THEN 0 ELSE KeyOffset(p, j - 1) + Len(ConfEntKeys(p.ents[j - 1]))

(* top = TRUE: the value given to the whole pattern (all wrongly typed kinds); FALSE: a value planted below a
   conforming parent (fewer kinds: the primitives were already exercised on every kind at the top) *)
Vals(p, top) ==
  LET wrong == IF top THEN Wrong ELSE {Nil, I(5), SeqV(<<>>)} IN
  CASE p.p = "sym" -> IF top THEN {Wit(p.n), Nil, Bo(FALSE), I(5), VecV(<<I(1)>>)} ELSE {Nil, Bo(FALSE)}
    [] p.p = "vec" ->
         LET c == Conf(p)  n == Len(p.items) IN
         {c, SeqV(c.xs)} \cup wrong
         \cup (IF top THEN {MapV(<<K("a")>>, <<I(1)>>), St(<<"u", "v", "w">>)} ELSE {})
         \cup {VecV(SubSeq(c.xs, 1, m)) : m \in 0..(n + 1)}            \* too short / exactly as long
         \cup (IF top THEN {SeqV(SubSeq(c.xs, 1, m)) : m \in 0..n} ELSE {SeqV(SubSeq(c.xs, 1, n))})
         \cup UNION {{VecWith(c, j, w) : w \in Vals(p.items[j], FALSE)} : j \in 1..n}
    [] p.p = "map" ->
         LET c == Conf(p)  nk == Len(c.ks) - 1 IN
         {c} \cup wrong
         \cup (IF top THEN {VecV(<<I(1), I(2)>>), SetV(<<c.ks[1]>>)} ELSE {})
         \cup {MapDrop(c, j) : j \in 1..nk}                              \* key absent
         \cup {MapWith(c, j, Nil) : j \in 1..nk}                         \* key present, value nil
         \cup (IF top THEN {MapWith(c, j, Bo(FALSE)) : j \in 1..nk} ELSE {})     \* key present, value false
         \cup {SeqV(Alternating(c.ks, c.vs))}                                     \* seq? values
         \cup (IF top THEN {SeqV(<<c>>), SeqV(<<K("q")>>), SeqV(Alternating(c.ks, c.vs) \o <<K("odd")>>),
                            SeqV(Alternating(c.ks, [j \in 1..Len(c.vs) |-> Nil]))} ELSE {})
         \cup UNION {IF p.ents[j].e = "bind"
                       THEN {MapWith(c, KeyOffset(p, j) + 1, w) : w \in Vals(p.ents[j].pat, FALSE)} ELSE {}
                     : j \in 1..Len(p.ents)}

(* argument lists for a keyword-argument rest *)
KwArgLists(p) ==
  LET c == Conf(p)  n == Len(c.ks)  alt == Alternating(c.ks, c.vs) IN
  {<<>>, alt, <<c>>, alt \o <<MapV(<<>>, <<>>)>>, <<MapV(<<>>, <<>>)>>,
   alt \o <<MapV(<<c.ks[1]>>, <<I(77)>>)>>,                              \* the trailing map wins
   SubSeq(alt, 1, 2) \o <<MapDrop(c, 1)>>,                               \* first pair positional, rest in the map
   SubSeq(alt, 3, Len(alt)),                                             \* first key absent
   Alternating(c.ks, [j \in 1..n |-> Nil]),                              \* every key present with nil
   Alternating(c.ks, [j \in 1..n |-> Bo(FALSE)]),
   <<c.ks[1]>>, alt \o <<K("odd")>>, <<I(5)>>, <<Nil>>}                  \* not documented -> unspec
(* argument lists for a sequential pattern in rest position *)
RestArgLists(p) == LET c == Conf(p) IN {SubSeq(c.xs, 1, m) : m \in 0..Len(c.xs)}
                                       \cup UNION {{VecWith(c, j, w).xs : w \in {Nil, I(5)}} : j \in 1..Len(p.items)}

(* ------------------------------- the machine -------------------------------------- *)
(* one state per pattern; rows = the table of the pattern (computed once per state, read by the invariants) *)
VARIABLES cls, pat, rows
vars == <<cls, pat, rows>>
None == PSym("")
RowsOf(p) == {[v |-> v, r |-> Bind(p, v)] : v \in Vals(p, TRUE)}
Init == cls \in 1..NShapes /\ pat = None /\ rows = {}
Pick == pat = None /\ pat' \in Shape(cls, Depth, <<"q">>, "full") /\ UNCHANGED <<cls, rows>>
Tabulate == pat # None /\ rows = {} /\ rows' = RowsOf(pat) /\ UNCHANGED <<cls, pat>>     \* its own step: spread over the workers
Next == Pick \/ Tabulate
Spec == Init /\ [][Next]_vars

(* ------------------------------- what TLC checks ---------------------------------- *)
Rows(p) == rows
NameSet(p) == {Names(p)[j] : j \in 1..Len(Names(p))}
(* Bind is total: every value gives ok / err / unspec; ok binds every name exactly once; err is a TypeError *)
Ready == pat # None /\ rows # {}
Total == Ready =>
  /\ Cardinality(NameSet(pat)) = Len(Names(pat))
  /\ \A row \in Rows(pat) :
       /\ row.r.st \in {"ok", "err", "unspec"}
       /\ row.r.st = "ok" => [j \in 1..Len(row.r.env) |-> row.r.env[j].n] = Names(pat)
       /\ row.r.st = "err" => row.r.c = "TypeError"
(* :or applies exactly when Get reports absence -- NOT when the value present is nil or false.  Stated on the
   top-level map pattern for every directly bound name with a default (defaults occur in no value). *)
DirectKeys(p) ==        \* set of <<name, key>> bound directly by the map pattern p
  UNION {LET ent == p.ents[j] IN
         IF ent.e = "bind" THEN (IF ent.pat.p = "sym" THEN {<<ent.pat.n, ent.key>>} ELSE {})
         ELSE {<<ent.names[i], ConfEntKeys(ent)[i]>> : i \in 1..Len(ent.names)}
         : j \in 1..Len(p.ents)}
OrExact == (Ready /\ pat.p = "map") =>
  \A row \in Rows(pat) : row.r.st = "ok" =>
    LET co == Coerce(row.v) IN
    \A nk \in DirectKeys(pat) :
      LET got == Lookup(row.r.env, nk[1]) IN
      IF HasOr(pat, nk[1])
        THEN /\ ~HasKey(co.m, nk[2]) => got = OrOf(pat, nk[1])
             \* the converse needs a default that occurs in no value (the keyword defaults; not `false`)
             /\ (OrOf(pat, nk[1]) # Bo(FALSE) /\ got = OrOf(pat, nk[1])) => ~HasKey(co.m, nk[2])
             /\ HasKey(co.m, nk[2]) => got = Get(co.m, nk[2], Nil)
        ELSE got = Get(co.m, nk[2], Nil)
(* :as is the value itself (for a seq? value given to a map pattern: the map it was read as) *)
AsIsValue == (Ready /\ pat.p \in {"vec", "map"} /\ pat.as # "") =>
  \A row \in Rows(pat) : row.r.st = "ok" =>
    LET got == Lookup(row.r.env, pat.as) IN
    IF pat.p = "map" /\ row.v.ty = "seq" THEN got = Coerce(row.v).asv ELSE got = row.v
(* the conforming value binds every leaf name to its witness; nil binds every name to nil or its default *)
RECURSIVE Leaves(_)
Leaves(p) ==
  CASE p.p = "sym" -> {p.n}
    [] p.p = "vec" -> UNION {Leaves(p.items[j]) : j \in 1..Len(p.items)}
    [] p.p = "map" -> UNION {IF p.ents[j].e = "bind" THEN Leaves(p.ents[j].pat)
                             ELSE {p.ents[j].names[i] : i \in 1..Len(p.ents[j].names)} : j \in 1..Len(p.ents)}
ConformingBinds == Ready =>
  LET r == Bind(pat, Conf(pat)) IN r.st = "ok" /\ \A n \in Leaves(pat) : Lookup(r.env, n) = Wit(n)
NilBindsNil == Ready =>
  LET r == Bind(pat, Nil) IN r.st = "ok" /\ \A j \in 1..Len(r.env) : r.env[j].v \in {Nil, Dflt(r.env[j].n), Bo(FALSE)}
(* a number never destructures sequentially, unless the pattern asks for nothing *)
NumberRaises == (Ready /\ pat.p = "vec") =>
  (Bind(pat, I(5)).st = "err" <=> (pat.items # <<>> \/ pat.rest # ""))

(* ------------------------------- emission ----------------------------------------- *)
PrimSubjects == Wrong \cup {VecV(<<I(1), Nil, I(3)>>), SeqV(<<I(1), I(2)>>), MapV(<<K("a"), K("b")>>, <<I(1), Nil>>),
                            St(<<"u", "v">>), SetV(<<Nil>>), Bo(TRUE), MapV(<<I(0)>>, <<K("z")>>)}
PrimKeys == {K("a"), K("b"), K("q"), I(0), I(1), I(5), Nil, St(<<"u">>)}
EmitPrims == \A v \in PrimSubjects :
  PrintT(<<"PRIM", ToJson([v |-> v,
                           nth |-> [i \in 1..4 |-> Nth(v, i - 1)],
                           nthnext |-> [i \in 1..4 |-> NthNext(v, i - 1)],
                           get |-> {[k |-> k, r |-> Get(v, k, K("dflt"))] : k \in PrimKeys}])>>)
Emit ==
  IF pat = None THEN (cls = 1 => EmitPrims)
  ELSE IF rows = {} THEN TRUE
  ELSE PrintT(<<"TAB", ToJson([pat |-> pat, names |-> Names(pat), rows |-> Rows(pat),
                              kw |-> IF pat.p = "map" THEN {[args |-> a, r |-> BindKw(pat, a)] : a \in KwArgLists(pat)} ELSE {},
                              rest |-> IF pat.p = "vec" THEN {[args |-> a, r |-> BindRest(pat, a)] : a \in RestArgLists(pat)} ELSE {}])>>)
=====================================================================================
