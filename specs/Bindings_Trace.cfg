SPECIFICATION Spec
CONSTRAINT Accept
CHECK_DEADLOCK FALSE
