CONSTANTS Seeds <- S2  MaxVersion = 3  BadVersions <- V2  MTimes <- T2  Sizes <- T2
          EditDuringLoad = FALSE  AllowUndetectableEdit = FALSE
          Checks <- All4  StatFirst = TRUE  WriteOnlyOk = TRUE
          DevInternByForeignHash = TRUE  EmitMode = "snapshot"
SPECIFICATION ESpec
