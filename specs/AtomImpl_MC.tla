------------------------------- MODULE AtomImpl_MC -------------------------------
EXTENDS AtomImpl
C(op, f, a, b) == [op |-> op, f |-> f, a |-> a, b |-> b]
Sw(f) == C("swap", f, NilV, NilV)
Rs(v) == C("reset", "-", v, NilV)
MCProgs == { <<Sw("inc")>>, <<Sw("inc"), Sw("inc")>>, <<Sw("dbl")>>, <<Sw("throw")>>, <<Sw("tonan")>>,
             <<Rs(IntV(5))>>, <<Rs(NaNV), Sw("inc")>>, <<Rs(IntV(1))>>,
             <<C("cas", "-", IntV(0), IntV(1))>>, <<C("cas", "-", IntV(1), IntV(7)), C("deref", "-", NilV, NilV)>>,
             <<C("swapvals", "inc", NilV, NilV)>>, <<C("resetvals", "-", IntV(2), NilV)>>,
             <<C("deref", "-", NilV, NilV), Sw("inc")>> }
MCInit == IntV(0)
T2 == {1, 2}
T3 == {1, 2, 3}
SmallProgs == { <<Sw("inc")>>, <<Rs(IntV(1))>>, <<C("cas", "-", IntV(0), IntV(2))>>, <<Sw("dbl")>>, <<Rs(NaNV)>>,
                <<C("swapvals", "inc", NilV, NilV)>> }
==================================================================================
