------------------------------- MODULE AtomImpl_MC -------------------------------
EXTENDS AtomImpl
C(op, f, a, b) == [op |-> op, f |-> f, a |-> a, b |-> b]
Sw(f) == C("swap", f, NilV, NilV)
Rs(v) == C("reset", "-", v, NilV)
MCProgs == { <<Sw("inc")>>, <<Sw("inc"), Sw("inc")>>, <<Sw("dbl")>>, <<Sw("throw")>>, <<Sw("tonan")>>,
             <<Rs(IntV(5))>>, <<Rs(NaNV), Sw("inc")>>, <<Rs(IntV(1))>>,
             <<C("cas", "-", IntV(0), IntV(1))>>, <<C("cas", "-", IntV(1), IntV(7)), C("deref", "-", NilV, NilV)>>,
             <<C("swapvals", "inc", NilV, NilV)>>, <<C("resetvals", "-", IntV(2), NilV)>>,
             <<C("deref", "-", NilV, NilV), Sw("inc")>> }
(* programs for spec -> code replay: no not-self-equal values (whether two of them are the identical object
   depends on the concrete update function; that aspect is covered by the code -> spec direction) *)
GenProgs == { <<Sw("inc")>>, <<Sw("inc"), Sw("inc")>>, <<Sw("dbl")>>, <<Sw("throw")>>,
              <<Rs(IntV(5))>>, <<Rs(IntV(1)), Sw("inc")>>, <<Rs(IntV(1))>>,
              <<C("cas", "-", IntV(0), IntV(1))>>, <<C("cas", "-", IntV(1), IntV(7)), C("deref", "-", NilV, NilV)>>,
              <<C("swapvals", "inc", NilV, NilV)>>, <<C("resetvals", "-", IntV(2), NilV)>>,
              <<C("deref", "-", NilV, NilV), Sw("inc")>> }
GenProgs3 == { <<Sw("inc")>>, <<Rs(IntV(1))>>, <<C("cas", "-", IntV(0), IntV(2))>>, <<Sw("dbl")>>,
               <<C("swapvals", "inc", NilV, NilV)>> }
MCInit == IntV(0)
T2 == {1, 2}
T3 == {1, 2, 3}
SmallProgs == { <<Sw("inc")>>, <<Rs(IntV(1))>>, <<C("cas", "-", IntV(0), IntV(2))>>, <<Sw("dbl")>>, <<Rs(NaNV)>>,
                <<C("swapvals", "inc", NilV, NilV)>> }
==================================================================================
