SPECIFICATION Spec
CONSTRAINT Emit
PROPERTY LogAppendOnly
PROPERTY CellsImmutable
PROPERTY GlobalsAppendOnly
INVARIANT StepBudget
CHECK_DEADLOCK FALSE
