CONSTANTS Threads <- T3  DynVars <- GDyn  NonDyn = "n"  Vals <- GVals  Bad <- GBad  Maps <- GMaps  Orders <- GOrders
          SpawnKinds <- AllKinds  MaxDepth = 4  D = 10
SPECIFICATION GSpec
INVARIANT RestoredOnExit
CONSTRAINT Bound_
CONSTRAINT Emit
CHECK_DEADLOCK FALSE
