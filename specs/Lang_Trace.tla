--------------------------------- MODULE Lang_Trace ---------------------------------
(* code -> spec for C01 / C02: each record is one execution of the real compiler +     *)
(* runtime: [prog (abstract syntax), outcome, val, log].  The machine of Lang.tla is    *)
(* run on prog; the record is accepted iff the machine finishes with the same outcome   *)
(* (value, or exception class) and the same sequence of effect markers.  The machine's  *)
(* invariants are evaluated on every state of every program.                            *)
EXTENDS Lang, Gen, Json, IOUtils

Recs == JsonDeserialize(IOEnv.TRACE_FILE)
VARIABLES pid
vars == <<pid, mode, ctl, env, kont, store, glob, log>>

Init == pid \in 1..Len(Recs) /\ MInit(Recs[pid].prog)
Next == MNext /\ UNCHANGED pid
Spec == Init /\ [][Next]_vars

Expected == [outcome |-> ctl.outcome,
             val |-> IF ctl.outcome = "val" THEN Proj(ctl.v) ELSE [ty |-> "exc", c |-> ctl.v.c],
             log |-> log]
Observed == [outcome |-> Recs[pid].outcome, val |-> Recs[pid].val, log |-> Recs[pid].log]

(* The as-built model (Gen.tla + PyIR.tla) run on the same program:                              *)
(*   - with every deviation switched off it must agree with the machine (consistency of the model) *)
(*   - a rejected record is classified by the smallest set of named deviations that reproduces it   *)
AsB(D) == AsBuilt(Recs[pid].prog, D)
(* the sets of deviations, smallest first; the first one that reproduces the observation names it *)
Candidates == << [hoist |-> TRUE, late |-> FALSE, munge |-> FALSE], [hoist |-> FALSE, late |-> TRUE, munge |-> FALSE],
                 [hoist |-> FALSE, late |-> FALSE, munge |-> TRUE], [hoist |-> TRUE, late |-> TRUE, munge |-> FALSE],
                 [hoist |-> TRUE, late |-> FALSE, munge |-> TRUE], [hoist |-> FALSE, late |-> TRUE, munge |-> TRUE],
                 AllDev >>
RECURSIVE FirstExplaining(_)
FirstExplaining(i) == IF i > Len(Candidates) THEN <<"unexplained">>
                      ELSE IF AsB(Candidates[i]) = Observed THEN DevNames(Candidates[i])
                      ELSE FirstExplaining(i + 1)
MinExplain == FirstExplaining(1)

(* C01: same value / exception class.  C02: same marker sequence. *)
Emit == (mode = "done") =>
          /\ (IF Recs[pid].mc = 0 \/ AsB(NoDev) = Expected THEN TRUE
              ELSE PrintT(<<"MODEL", ToJson([id |-> pid, lang |-> Expected, asbuilt |-> AsB(NoDev)])>>))
          /\ (IF Expected = Observed THEN PrintT(<<"ACC", pid>>)
              ELSE PrintT(<<"REJ", ToJson([id |-> pid, expected |-> Expected, devs |-> MinExplain])>>))

(* a program of the corpus always terminates within the step budget *)
StepBudget == TLCGet("level") < 3000
=====================================================================================
