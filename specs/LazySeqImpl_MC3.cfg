CONSTANTS Threads <- T3  N = 3  FailPolicy = "retry"  Progs <- ProgsS  Plans <- PlansT3
          LockUnderGIL = FALSE  ErrLeavesComputing = FALSE  Record = FALSE  Steer = FALSE
SPECIFICATION Spec
INVARIANT Simulates
INVARIANT SameShape
INVARIANT MutexSane
INVARIANT UnderMutex
INVARIANT RunsAtMostOnce
INVARIANT ThrowKeepsCell
INVARIANT DemandBound
PROPERTY Termination
