------------------------------- MODULE MultiFn_Diag -------------------------------
(* C18: classification of observed discrepancies.  For every case (abstract state +   *)
(* dispatch value) read from TRACE_FILE the as-built model MultiFnImpl is put into    *)
(* that state and asked which outcomes a call can have -- over every iteration order  *)
(* -- with each combination of the named deviations, and what the hierarchy functions *)
(* answer with DevClassAnc.  The driver names a discrepancy "dev:<Names>" only when   *)
(* the observation is among the outcomes of exactly that combination.                 *)
EXTENDS MultiFnImpl, MultiFn_U, Json, IOUtils

VARIABLE cid
Cases == JsonDeserialize(IOEnv.TRACE_FILE)
ToSet(s) == {s[i] : i \in 1..Len(s)}
ToPairs(s) == {<<s[i][1], s[i][2]>> : i \in 1..Len(s)}
Fresh == [p |-> NoneMap, a |-> NoneMap, d |-> NoneMap]

DInit == /\ cid \in 1..Len(Cases)
         /\ methods = ToSet(Cases[cid].m) /\ prefers = ToPairs(Cases[cid].pf) /\ parents = ToPairs(Cases[cid].pa)
         /\ LET h == Rebuild(Fresh, parents) IN hP = h.p /\ hA = h.a /\ hD = h.d /\ cachedH = h
         /\ cache = ResetCache(methods)
DNext == UNCHANGED <<vars, cid>>

Out(devO, devC) == ImplOutcomes(methods, prefers, ImplAncF(hA, devC), Cases[cid].dv, devO)
Diag == LET AC == ImplAncF(hA, TRUE) IN
  [id |-> cid,
   req |-> Allowed(methods, prefers, parents, Cases[cid].dv),
   none |-> Out(FALSE, FALSE), o |-> Out(TRUE, FALSE), c |-> Out(FALSE, TRUE), oc |-> Out(TRUE, TRUE),
   ancc |-> AC,
   isac |-> [x \in DV |-> {y \in DV : x # y /\ IsaF(AC, x, y)}]]
Emit == PrintT(<<"DIAG", ToJson(Diag)>>)
(* the corrected mechanism (no deviation) always answers within the requirement *)
DiagSane == Out(FALSE, FALSE) \subseteq Allowed(methods, prefers, parents, Cases[cid].dv)
=====================================================================================
