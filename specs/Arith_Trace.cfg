SPECIFICATION Spec
CONSTRAINT Emit
CHECK_DEADLOCK FALSE
