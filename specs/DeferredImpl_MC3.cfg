CONSTANTS Threads <- T3  Configs <- AllKinds3  Devs <- NoDevs
          DelayGuarded = TRUE  DeliverChecks = TRUE  UseLock = TRUE  FutureSwallows = FALSE
SPECIFICATION Spec
INVARIANT DelayOnce
INVARIANT DelaySameValue
INVARIANT PromiseValue
INVARIANT FutureOutcome
INVARIANT TimedDeref
INVARIANT LinOrder
INVARIANT FirstDeliverWins
INVARIANT CellAgrees
PROPERTY RealizedMonotone
PROPERTY Termination
INVARIANT DelayOnceStrict
