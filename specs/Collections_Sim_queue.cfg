CONSTANTS Ty = "queue"  Elems <- ElemsSeqBig  KeySeq <- KeysBig  MaxProbe = 41  Metas = {0, 1, 2}
          MaxDepth = 60  MaxSize = 40  Shard = 0  NShards = 1  Mode = "sim"  Bug = "none"
INIT Init
NEXT Next
CONSTRAINT Emit
CHECK_DEADLOCK FALSE
