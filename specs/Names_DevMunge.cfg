\* negative job: deviation Munge switched on -- the refinement must FAIL (for Munge: on a pool where munge collides)
CONSTANTS
  NameSeq <- ClassSeq
  Munge <- MungeAll
  Ambient <- AmbientCls
  Flags <- FlagsAll
  Toggle = TRUE
  AllowAlter = TRUE
  Definers = {"A", "B"}
  MaxLen = 4
SPECIFICATION GSpec
INVARIANT WitnessMunge
CHECK_DEADLOCK FALSE
