--------------------------------- MODULE LazySeq ---------------------------------
(* C06 -- required behaviour of a lazy sequence shared by several consumer threads.    *)
(*                                                                                    *)
(* The sequence is a chain of cells 1..N.  The producer of cell k < N yields element k  *)
(* and the link to cell k+1; the producer of cell N yields nil (end of the sequence).   *)
(* A consumer call op(c) (first / seq / rest / next / count on the handle of cell c)     *)
(* walks the cells it needs, one after the other (cursor `cur`); a cell is looked at     *)
(* only through the silent step Observe, which is possible only when the cell is done.   *)
(*                                                                                    *)
(*   at most once    the producer of a cell starts only when the cell is unrealized and *)
(*                   nobody is running it; after a successful run the cell is done for  *)
(*                   ever (okruns[c] <= 1)                                              *)
(*   on demand only  a producer starts only under a pending call whose cursor stands on *)
(*                   that cell (dem = cells some call has asked for)                    *)
(*   agreement       what a call returns is a function of (op, c) and the fixed layout: *)
(*                   every consumer sees the same elements in the same order            *)
(*   exceptions      a producer that throws has produced nothing: the exception goes to *)
(*                   the call that started it and the cell is left either unrealized    *)
(*                   (a later demand runs the producer again -- the only way to ever    *)
(*                   obtain the element; this is what Clojure does and what the repair   *)
(*                   of seq.rs does) or failed (every later demand raises again).  It is *)
(*                   never done with contents the producer did not return: the sequence *)
(*                   does not become silently shorter.  "At most once" therefore counts  *)
(*                   successful runs; failed attempts never overlap another run.        *)
(*   re-entrancy     a call made from inside the producer of cell k that reaches cell k  *)
(*                   cannot wait (deadlock) and cannot run the producer again (at most   *)
(*                   once): it sees the sequence as computed so far, i.e. ending before  *)
(*                   cell k (basilisp's documented choice), or is refused with an error. *)
(*   liveness        every call returns provided every producer does (checked by the    *)
(*                   modules that instantiate this one, under weak fairness).           *)
EXTENDS Integers, Sequences, FiniteSets, TLC, LazySeqVals

CONSTANTS FailPolicy    \* "retry" | "sticky" | "either": what a throwing producer may leave behind

Cells == 1..N

VARIABLES st,       \* st[c] \in {"unrealized", "running", "done", "failed"}
          runner,   \* runner[c]: the thread running the producer of c (0: nobody)
          okruns,   \* okruns[c]: successful producer runs of c
          dem,      \* cells on which the cursor of some call has stood
          stack     \* stack[t]: frames, innermost last: a call, the producer it started, a call made by that producer, ...
lvars == <<st, runner, okruns, dem, stack>>

CallF(op, c) == [k |-> "call", op |-> op, c |-> c, cur |-> c, res |-> NilV]
ProdF(c)     == [k |-> "prod", op |-> "-", c |-> c, cur |-> 0, res |-> NilV]
Depth(t) == Len(stack[t])
Top(t) == stack[t][Len(stack[t])]
SetTop(t, f) == [stack EXCEPT ![t] = [@ EXCEPT ![Len(@)] = f]]
Push(t, f) == [stack EXCEPT ![t] = Append(@, f)]
Pop(t) == [stack EXCEPT ![t] = SubSeq(@, 1, Len(@) - 1)]
InProducerOf(t, k) == st[k] = "running" /\ runner[k] = t

LInit == /\ st = [c \in Cells |-> "unrealized"] /\ runner = [c \in Cells |-> 0]
         /\ okruns = [c \in Cells |-> 0] /\ dem = {} /\ stack = [t \in Threads |-> <<>>]

(* ---- preconditions (state predicates, used by monitors of as-built models) ------------ *)
\* (IF, not \/: TLC explores both disjuncts of an action, and Top is undefined on an empty stack)
CallOK(t, op, c) == c \in Cells /\ op \in Ops /\ (IF Depth(t) = 0 THEN TRUE ELSE Top(t).k = "prod")
AtCell(t, k) == Depth(t) > 0 /\ Top(t).k = "call" /\ Top(t).cur = k /\ k # 0
ObserveOK(t) == Depth(t) > 0 /\ Top(t).k = "call" /\ Top(t).cur # 0
                /\ (st[Top(t).cur] = "done" \/ InProducerOf(t, Top(t).cur))
ObserveFailedOK(t) == Depth(t) > 0 /\ Top(t).k = "call" /\ Top(t).cur # 0 /\ st[Top(t).cur] = "failed"
RefuseOK(t) == Depth(t) > 0 /\ Top(t).k = "call" /\ Top(t).cur # 0 /\ InProducerOf(t, Top(t).cur)
StartOK(t, k) == AtCell(t, k) /\ st[k] = "unrealized"
EndOK(t, k) == Depth(t) > 1 /\ Top(t).k = "prod" /\ Top(t).c = k /\ InProducerOf(t, k)
RetOK(t, res) == Depth(t) > 0 /\ Top(t).k = "call" /\ Top(t).cur = 0 /\ Top(t).res = res

(* ---- actions ------------------------------------------------------------------------ *)
LCall(t, op, c) == /\ CallOK(t, op, c)
                   /\ stack' = Push(t, CallF(op, c))
                   /\ dem' = dem \cup {c}
                   /\ UNCHANGED <<st, runner, okruns>>

(* silent: the call looks at the cell its cursor stands on.  A cell being produced by this very  *)
(* thread (the call comes from inside its producer) is seen as the end of what exists so far.     *)
LObserve(t) == /\ ObserveOK(t)
               /\ LET f == Top(t)
                      e == (f.cur = N) \/ InProducerOf(t, f.cur)
                      w == Walk(f.op, f.c, f.cur, e) IN
                    /\ stack' = SetTop(t, [f EXCEPT !.cur = w.cur, !.res = w.res])
                    /\ dem' = IF w.cur # 0 THEN dem \cup {w.cur} ELSE dem
               /\ UNCHANGED <<st, runner, okruns>>

(* silent: a cell that keeps its failure raises again *)
LObserveFailed(t) == /\ ObserveFailedOK(t)
                     /\ stack' = SetTop(t, [Top(t) EXCEPT !.cur = 0, !.res = ExcV])
                     /\ UNCHANGED <<st, runner, okruns, dem>>

(* silent: a re-entrant access may be refused instead *)
LRefuse(t) == /\ RefuseOK(t)
              /\ stack' = SetTop(t, [Top(t) EXCEPT !.cur = 0, !.res = RefusedV])
              /\ UNCHANGED <<st, runner, okruns, dem>>

LStart(t, k) == /\ StartOK(t, k)
                /\ st' = [st EXCEPT ![k] = "running"] /\ runner' = [runner EXCEPT ![k] = t]
                /\ stack' = Push(t, ProdF(k))
                /\ UNCHANGED <<okruns, dem>>

AfterFail == CASE FailPolicy = "retry" -> {"unrealized"}
               [] FailPolicy = "sticky" -> {"failed"}
               [] OTHER -> {"unrealized", "failed"}

LEnd(t, k, ok) ==
  /\ EndOK(t, k)
  /\ runner' = [runner EXCEPT ![k] = 0]
  /\ IF ok THEN /\ st' = [st EXCEPT ![k] = "done"]
                /\ okruns' = [okruns EXCEPT ![k] = @ + 1]
                /\ stack' = Pop(t)
           ELSE /\ \E s \in AfterFail : st' = [st EXCEPT ![k] = s]
                /\ okruns' = okruns
                \* the exception goes to the call that started the producer
                /\ stack' = [stack EXCEPT ![t] = LET d == Len(@) IN
                                Append(SubSeq(@, 1, d - 2), [@[d - 1] EXCEPT !.cur = 0, !.res = ExcV])]
  /\ UNCHANGED dem

LRet(t, res) == /\ RetOK(t, res)
                /\ stack' = Pop(t)
                /\ UNCHANGED <<st, runner, okruns, dem>>

(* ---- what must hold in every state ------------------------------------------------------ *)
RunsAtMostOnce == \A c \in Cells : okruns[c] <= 1 /\ (st[c] = "running" <=> runner[c] # 0)
ThrowKeepsCell == \A c \in Cells : st[c] = "done" <=> okruns[c] = 1
DemandBound == \A c \in Cells : st[c] # "unrealized" \/ okruns[c] > 0 => c \in dem
(* a cell is reachable only through its predecessor *)
InOrder == \A c \in Cells : (c > 1 /\ c \in dem) => st[c - 1] = "done"
LTypeOK == /\ st \in [Cells -> {"unrealized", "running", "done", "failed"}]
           /\ runner \in [Cells -> Threads \cup {0}]
===================================================================================
