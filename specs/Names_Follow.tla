-------------------------------- MODULE Names_Follow --------------------------------
(* Expectations for GIVEN histories (those chosen by TLC's simulation of Names_Gen over  *)
(* the whole pool): the histories are read from IOEnv.TRACE_FILE, each one is followed  *)
(* step by step, and the table of allowed / as-built outcomes is printed after every    *)
(* step -- the same BEH lines as Names_Gen, one per prefix.                              *)
EXTENDS Names_Gen

Traces == JsonDeserialize(IOEnv.TRACE_FILE)
VARIABLES tid
fvars == <<vr, refers, alias, req, cur, gl, hist, tid>>

FInit == GInit /\ tid \in 1..Len(Traces)
FNext == /\ Len(hist) < Len(Traces[tid])
         /\ GNext
         /\ hist'[Len(hist')] = Traces[tid][Len(hist')]
         /\ UNCHANGED tid
FSpec == FInit /\ [][FNext]_fvars
Followed == Len(hist) = Len(Traces[tid]) => PrintT(<<"END", tid>>)
FEmit == Emit /\ Followed
=====================================================================================
