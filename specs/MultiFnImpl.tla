------------------------------- MODULE MultiFnImpl -------------------------------
(* C18 -- the multimethod as built (lang/multifn.py + the hierarchy functions of       *)
(* core.lpy), running in lock step with the required specification MultiFn.            *)
(*                                                                                    *)
(* Mechanism added to (methods, prefers, parents):                                     *)
(*   hP, hA, hD   the hierarchy value {:parents :ancestors :descendants}, maintained   *)
(*                incrementally by derive and rebuilt by underive                      *)
(*   cache        dispatch value -> method, reset to the method table on every mutation *)
(*   cachedH      the hierarchy value the cache is valid for; get-method resets the    *)
(*                cache when it differs from the current one                           *)
(*   the search   one pass over the method table in an ARBITRARY iteration order (the  *)
(*                table is a hash map): Walk explores every order                      *)
(*                                                                                    *)
(* Named deviations of the pinned tree (TRUE = as built):                              *)
(*   DevOrder     Dev_OrderDependentAmbiguity: the single pass compares each method    *)
(*                only with the best one so far, so its answer depends on the order    *)
(*                (diamond k -> c -> {a, b}, methods on a, b, c: "c" or "ambiguous").  *)
(*                FALSE = every candidate is compared with every other one.            *)
(*   DevClassAnc  Dev_ClassAncestorsNotInherited: (ancestors h cls) is the derive      *)
(*                ancestors of cls itself plus its superclasses -- what the            *)
(*                superclasses derive from is missing, so isa? is not transitive       *)
(*                across class inheritance.  FALSE = they are included.                *)
(* Mutants the design check must reject: ResetOn lacks an operation; CheckHier = FALSE. *)
EXTENDS MultiFn

CONSTANTS DevOrder, DevClassAnc,
          ResetOn,      \* operations after which the cache is reset: {"add","remove","removeall","prefer"}
          CheckHier     \* get-method compares the cached hierarchy value with the current one

VARIABLES hP, hA, hD, cache, cachedH
ivars == <<hP, hA, hD, cache, cachedH>>
vars == <<methods, prefers, parents, hP, hA, hD, cache, cachedH>>

Empty == "-"
Supers(x) == Above(Bases, x)                       \* Python: all superclasses

(* ---------------------- operators of the mechanism (no variables) ------------------- *)
(* (ancestors h x) as built, from the :ancestors map A *)
ImplAncOf(A, x, devC) == A[x] \cup Supers(x) \cup (IF devC THEN {} ELSE UNION {A[s] : s \in Supers(x)})
ImplAncF(A, devC) == TLCEval([x \in Atoms |-> ImplAncOf(A, x, devC)])
(* the :ancestors map is the closure of the derive edges (invariant MapsExact), so the   *)
(* mechanism's isa? can also be written as a function of the derive relation             *)
ImplAncFP(P, devC) == ImplAncF([x \in Atoms |-> Above(P, x)], devC)

Prec(Pf, AF, x, y) == <<x, y>> \in Pf \/ IsaF(AF, x, y)            \* _precedes
(* _find_and_cache_method: the outcomes over all iteration orders of the candidates      *)
(* (methods that do not match are skipped and do not influence the pass)                  *)
RECURSIVE Walk(_, _, _, _, _)
Walk(M, Pf, AF, best, rest) ==
  IF rest = {} THEN {IF best = Empty THEN NoMatch(M) ELSE best}
  ELSE UNION { LET b2 == IF best = Empty \/ Prec(Pf, AF, m, best) THEN m ELSE best
               IN IF ~Prec(Pf, AF, b2, m) THEN {Amb} ELSE Walk(M, Pf, AF, b2, rest \ {m})
               : m \in rest }
Search(M, Pf, AF, dv, devO) ==
  IF devO THEN Walk(M, Pf, AF, Empty, CandsF(M, AF, dv))
  ELSE LET C == CandsF(M, AF, dv)
           B == BestF(M, Pf, AF, dv)
       IN IF C = {} THEN {NoMatch(M)} ELSE IF Cardinality(B) = 1 THEN B ELSE {Amb}
(* what a call can answer in a given state, from scratch: an exact match is served from   *)
(* the cache (which is reset to the method table), everything else is searched            *)
ImplOutcomes(M, Pf, AF, dv, devO) == IF dv \in M THEN {dv} ELSE Search(M, Pf, AF, dv, devO)

(* -------------------------------- the machine --------------------------------------- *)
H == [p |-> hP, a |-> hA, d |-> hD]
NoneMap == [x \in Atoms |-> {}]
ResetCache(M) == [d \in DV |-> IF d \in M THEN d ELSE Empty]

IInit == /\ Init
         /\ hP = NoneMap /\ hA = NoneMap /\ hD = NoneMap
         /\ cache = ResetCache({}) /\ cachedH = [p |-> NoneMap, a |-> NoneMap, d |-> NoneMap]

After(op) == IF op \in ResetOn THEN cache' = ResetCache(methods') /\ cachedH' = H
             ELSE UNCHANGED <<cache, cachedH>>
IAdd(dv) == AddMethod(dv) /\ After("add") /\ UNCHANGED <<hP, hA, hD>>
IRemove(dv) == RemoveMethod(dv) /\ After("remove") /\ UNCHANGED <<hP, hA, hD>>
IRemoveAll == RemoveAll /\ After("removeall") /\ UNCHANGED <<hP, hA, hD>>
IPrefer(x, y) == /\ Prefer(x, y)
                 /\ IF PreferErr(prefers, x, y) THEN UNCHANGED <<cache, cachedH>> ELSE After("prefer")
                 /\ UNCHANGED <<hP, hA, hD>>

(* (derive h t p) on the three maps *)
DeriveMaps(h, t, p) ==
  LET pa == h.a[p]  cd == h.d[t] IN
    [p |-> [h.p EXCEPT ![t] = @ \cup {p}],
     a |-> [x \in Atoms |-> IF x \in cd \cup {t} THEN h.a[x] \cup pa \cup {p} ELSE h.a[x]],
     d |-> [x \in Atoms |-> IF x \in pa \cup {p} THEN h.d[x] \cup cd \cup {t} ELSE h.d[x]]]
ImplDeriveErr(h, t, p) == t = p \/ t \in h.a[p]
IDerive(t, p) == /\ Derive(t, p)
                 /\ IF ImplDeriveErr(H, t, p) THEN UNCHANGED <<hP, hA, hD>>
                    ELSE LET n == DeriveMaps(H, t, p) IN hP' = n.p /\ hA' = n.a /\ hD' = n.d
                 /\ UNCHANGED <<cache, cachedH>>
(* (underive h t p): a fresh hierarchy into which every remaining edge is derived again *)
RECURSIVE Rebuild(_, _)
Rebuild(h, es) == IF es = {} THEN h
                  ELSE LET e == CHOOSE f \in es : TRUE IN Rebuild(DeriveMaps(h, e[1], e[2]), es \ {e})
IUnderive(t, p) == /\ Underive(t, p)
                   /\ LET es == {e \in Atoms \X Atoms : e[2] \in hP[e[1]] /\ e # <<t, p>>}
                          n == Rebuild([p |-> NoneMap, a |-> NoneMap, d |-> NoneMap], es)
                      IN hP' = n.p /\ hA' = n.a /\ hD' = n.d
                   /\ UNCHANGED <<cache, cachedH>>

(* what get-method works with: the cache after the hierarchy comparison *)
Stale == CheckHier /\ cachedH # H
Eff == IF Stale THEN ResetCache(methods) ELSE cache
MyAF == ImplAncF(hA, DevClassAnc)
(* a call: served from the cache, else searched in some iteration order and cached        *)
(* (errors are not cached)                                                                *)
ICall(dv) == /\ cachedH' = IF Stale THEN H ELSE cachedH
             /\ IF Eff[dv] # Empty THEN cache' = Eff
                ELSE \E out \in Search(methods, prefers, MyAF, dv, DevOrder) :
                        cache' = IF out \in {Amb, None} THEN Eff ELSE [Eff EXCEPT ![dv] = out]
             /\ UNCHANGED <<methods, prefers, parents, hP, hA, hD>>

INext == \/ \E dv \in DV : IAdd(dv) \/ IRemove(dv) \/ ICall(dv)
         \/ IRemoveAll
         \/ \E e \in PrefPairs : IPrefer(e[1], e[2])
         \/ \E e \in Edges : IDerive(e[1], e[2]) \/ IUnderive(e[1], e[2])
ISpec == IInit /\ [][INext]_vars
(* the mutators alone: the cache is then a function of the rest, the state space is that   *)
(* of the required specification (used for the invariants that do not concern the cache)   *)
HView == <<methods, prefers, parents, hP, hA, hD>>
INextMut == \/ \E dv \in DV : IAdd(dv) \/ IRemove(dv)
            \/ IRemoveAll
            \/ \E e \in PrefPairs : IPrefer(e[1], e[2])
            \/ \E e \in Edges : IDerive(e[1], e[2]) \/ IUnderive(e[1], e[2])

(* -------------------------------- what TLC checks ----------------------------------- *)
(* the three maps are exactly the closure of the derive edges ... *)
MapsExact == \A x \in Atoms : /\ hP[x] = Direct(parents, x)
                              /\ hA[x] = Above(parents, x)
                              /\ hD[x] = {y \in Atoms : x \in Above(parents, y)}
(* ... and what parents / ancestors / descendants / isa? answer from them is what the      *)
(* required hierarchy says (fails for classes with DevClassAnc)                            *)
HierRefines ==
  LET AF == AncF(parents)  IF_ == MyAF IN
  /\ \A x \in Atoms : /\ hP[x] \cup Direct(Bases, x) = Parents(parents, x)
                      /\ IF_[x] = AF[x]
  /\ \A t \in Tags : DescMin(parents, t) \subseteq hD[t] /\ hD[t] \subseteq DescMax(parents, t)
  /\ \A x, y \in DV : IsaF(IF_, x, y) <=> IsaF(AF, x, y)
(* a search from scratch gives an allowed outcome whatever the iteration order            *)
SearchSound == LET AF == AncF(parents)  IF_ == MyAF IN
               \A dv \in DV : ImplOutcomes(methods, prefers, IF_, dv, DevOrder)
                                 \subseteq AllowedF(methods, prefers, AF, dv)
(* THE PROPERTY: the cache is invisible -- whatever it holds is an allowed answer *now*    *)
CacheInvisible == LET AF == AncF(parents)  E == Eff IN
                  \A dv \in DV : E[dv] # Empty => E[dv] \in AllowedF(methods, prefers, AF, dv)
(* the same at the level of the mechanism (holds with the deviations on): a cached answer  *)
(* is one a search from scratch could give now                                             *)
CacheCoherent == LET IF_ == MyAF  E == Eff IN
                 \A dv \in DV : E[dv] # Empty => E[dv] \in ImplOutcomes(methods, prefers, IF_, dv, DevOrder)
===================================================================================
