CONSTANTS U <- UT  DevBoolSeq = FALSE  DevBoolKey = FALSE  DevHashByRep = FALSE  KeySeq <- KeysT  MaxDepth = 12
INIT InitL
NEXT NextLS
INVARIANT LookupRespectsEq
CONSTRAINT EmitL
CHECK_DEADLOCK FALSE
