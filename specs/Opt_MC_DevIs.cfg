CONSTANTS Size = 1  DevIsBecomesEq = TRUE  DevContainsSwaps = FALSE  DevDelitemAsExpr = FALSE
SPECIFICATION Spec
INVARIANT RewritePreserves
CHECK_DEADLOCK FALSE
