CONSTANTS
  StrLen = 2
  Depth = 1
  Dev = {"XEscape"}
SPECIFICATION Spec
INVARIANT RoundTrip
CHECK_DEADLOCK FALSE
