CONSTANTS Tags <- TagsK  Classes <- ClassesK  Bases <- BasesK  VecElems <- NoVecs  Dflt = "dflt"
          Edges <- EdgesK  PrefPairs <- PrefsK
          DevOrder = FALSE  DevClassAnc = FALSE  ResetOn <- AllOps  CheckHier = TRUE
INIT IInit
NEXT INext
INVARIANT CacheInvisible
INVARIANT CacheCoherent
CHECK_DEADLOCK FALSE
