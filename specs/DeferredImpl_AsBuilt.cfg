CONSTANTS Threads <- T2  Configs <- AllKinds  Devs <- BothDevs
          DelayGuarded = FALSE  DeliverChecks = TRUE  UseLock = TRUE  FutureSwallows = TRUE
SPECIFICATION Spec
INVARIANT DelayOnce
INVARIANT DelaySameValue
INVARIANT PromiseValue
INVARIANT FutureOutcome
INVARIANT TimedDeref
INVARIANT LinOrder
INVARIANT FirstDeliverWins
INVARIANT CellAgrees
PROPERTY RealizedMonotone
PROPERTY Termination
