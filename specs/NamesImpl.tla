-------------------------------- MODULE NamesImpl --------------------------------
(* C10 -- AS-BUILT model of name resolution and Var linking (analyzer.py               *)
(* __resolve_bare_symbol / __resolve_namespaced_symbol, generator.py _def_to_py_ast /  *)
(* _var_sym_to_py_ast / __var_direct_link_to_py_ast, runtime.py Namespace.find).       *)
(*                                                                                    *)
(* On top of the state of Names.tla every namespace has its Python module globals:     *)
(* `def` stores the value in the module under the MUNGED name of the Var, and a        *)
(* direct-linked read of a Var is a read of that global (when the Var's module is      *)
(* reachable from the current module: same namespace, or required), otherwise -- and   *)
(* always for dynamic / redef Vars and under var indirection -- Var.find(..).value.    *)
(*                                                                                    *)
(* Named deviations from Names.tla (switches; both off: NamesImpl refines Names):      *)
(*   MungeCollision   the globals are keyed by munge(name), which is not injective     *)
(*                    ('-' -> '_', '?' -> '__Q__', builtins/keywords get '_' appended) *)
(*                    -- with the switch off they are keyed by the name itself; a read  *)
(*                    then sees the global of another name, and an undefined name whose *)
(*                    munged form is taken trips an internal assertion of the analyzer  *)
(*   StaleRefer       a bare symbol found among the refers is not checked for privacy  *)
(*                    (a Var made private AFTER it was referred stays reachable)       *)
(* TLC cannot compute on strings: the munged form of every pooled name is the constant *)
(* function Munge (checked against basilisp.lang.util.munge by the driver).            *)
EXTENDS Names

CONSTANTS Munge        \* [name -> munged name]

VARIABLES gl           \* gl[dm][x][key]: global `key` of the module of namespace x (0: absent); dm = TRUE keyed
                       \* as built (munged), dm = FALSE keyed by name (the deviation switched off)
ivars == <<vr, refers, alias, req, cur, gl>>

Keys == Names \cup {Munge[n] : n \in Names}
Key(dm, n) == IF dm THEN Munge[n] ELSE n

IInit == NInit /\ gl = [dm \in BOOLEAN |-> [x \in NSS |-> [k \in Keys |-> 0]]]

IDef(n, fl) ==
  /\ Def(n, fl)
  /\ gl' = [dm \in BOOLEAN |-> [gl[dm] EXCEPT ![cur][Key(dm, n)] = DefVal(cur, n, NextT(cur, n))]]
IInNs == InNs /\ UNCHANGED gl
IRequireAs == RequireAs /\ UNCHANGED gl
IAliasSelf == AliasSelf /\ UNCHANGED gl
IRefer(n) ==
  /\ (V(Other(cur), n).ex /\ ~Private(Other(cur), n) /\ n \notin refers[cur]) \/ ~req[cur]   \* skip pure no-ops
  /\ Refer(n) /\ UNCHANGED gl
IAlterRoot(n) == AlterRoot(n) /\ UNCHANGED gl        \* alter-var-root changes the Var, never the module global

INext == \/ \E n \in Names, fl \in Flags : IDef(n, fl)
         \/ IInNs \/ IRequireAs \/ IAliasSelf
         \/ \E n \in Names : IRefer(n) \/ IAlterRoot(n)
ISpec == IInit /\ [][INext]_ivars

(* ------------------------------ resolution as built ---------------------------------- *)
(* Namespace.find: interns, then refers (those from the other namespace, then the core library's) *)
Find(x, n) == IF V(x, n).ex THEN RVar(x, n)
              ELSE IF n \in refers[x] THEN RVar(Other(x), n)
              ELSE IF n \in Ambient THEN RCode(AMB)
              ELSE RCode(UNRES)

(* __resolve_bare_symbol ends with `assert munged not in vars(current_ns.module)`: a name that resolves to   *)
(* nothing while the module holds a global under its munged name (the def of a colliding name) is not       *)
(* reported as unresolvable -- the assertion fails (another face of the MungeCollision deviation)           *)
IResolveBare(n, dm, ds) ==
  LET f == Find(cur, n) IN
  IF IsVar(f) /\ f[2] # cur /\ Private(f[2], n) /\ ~ds THEN RCode(PRIV)
  ELSE IF f = RCode(UNRES) /\ gl[dm][cur][Key(dm, n)] # 0 THEN RCode(ASSERT)
  ELSE f

(* x/n and al/n: Var.find = Namespace.find of the named namespace, private Vars rejected -- except that the  *)
(* current namespace's own name is looked up without the check                                                *)
IResolveIn(x, n, byalias) ==
  LET f == Find(x, n) IN
  IF x = cur /\ ~byalias THEN f
  ELSE IF IsVar(f) /\ Private(f[2], n) THEN RCode(PRIV) ELSE f

IResolve(n, sp, dm, ds) ==
  CASE sp = "bare" -> IResolveBare(n, dm, ds)
    [] sp = "al"   -> IF alias[cur] # "-" THEN IResolveIn(alias[cur], n, TRUE) ELSE RCode(UNRES)
    [] sp = "fqA"  -> IResolveIn("A", n, FALSE)
    [] sp = "fqB"  -> IResolveIn("B", n, FALSE)
    [] sp = "loc"  -> <<"local", "-", "-">>
    [] sp = "var"  -> Find(cur, n)                       \* runtime.resolve_var: no privacy check
    [] sp = "bind" -> IResolveBare(n, dm, ds)
    [] sp = "redef" -> IResolveBare(n, dm, ds)
    [] sp = "fqp"  -> IResolveIn(cur, n, FALSE)

(* ------------------------------ reads as built ---------------------------------------- *)
Linkable(x) == x = cur \/ req[cur]
IValue(x, n, m, dm) ==
  IF Indirect(x, n, m) THEN Root(x, n)
  ELSE IF Linkable(x) /\ gl[dm][x][Key(dm, n)] # 0 THEN gl[dm][x][Key(dm, n)]
  ELSE Root(x, n)

Impl(n, sp, m, dm, ds) ==
  LET r == IResolve(n, sp, dm, ds) IN
  CASE sp = "loc" -> LOCALV
    [] sp = "var" -> IF IsVar(r) THEN Ident(r[2], r[3]) ELSE r[2]
    [] sp = "bind" -> IF IsVar(r) /\ V(r[2], r[3]).fl = "dyn" THEN BOUNDV ELSE ANY
    [] sp = "redef" -> IF IsVar(r) /\ r[2] = cur /\ V(r[2], r[3]).fl = "dyn" THEN BOUNDV ELSE ANY
    [] OTHER -> IF IsVar(r) THEN IValue(r[2], r[3], m, dm) ELSE r[2]

(* ------------------------------ refinement -------------------------------------------- *)
Conforms(n, sp, m, dm, ds) == LET rq == Req(n, sp, m) IN ANY \in rq \/ Impl(n, sp, m, dm, ds) \in rq
Refines(dm, ds) == \A n \in Names : \A sp \in Spellings : \A m \in Modes : Conforms(n, sp, m, dm, ds)

RefinesNoDev == Refines(FALSE, FALSE)
RefinesMunge == Refines(TRUE, FALSE)             \* must FAIL for a pool on which Munge is not injective
RefinesStale == Refines(FALSE, TRUE)             \* must FAIL (refer, then make private)
(* a name has its own binding: two names defined in one namespace never share a global slot *)
OneSlotPerName(dm) == \A x \in NSS : \A n1, n2 \in Names :
                         (n1 # n2 /\ V(x, n1).ex /\ V(x, n2).ex) => Key(dm, n1) # Key(dm, n2)
SlotsNoDev == OneSlotPerName(FALSE)
SlotsMunge == OneSlotPerName(TRUE)
(* mechanism check: with injective keys the global of a Var always holds lastDef *)
GlobalIsLastDef == \A x \in NSS : \A n \in Names :
                      V(x, n).ex => gl[FALSE][x][n] = LastDef(x, n)
=====================================================================================
