\* design check (quick, 1 of 2): only namespace A defines; all four flags; redefinition alternates two values
CONSTANTS
  NameSeq <- ClassSeq
  Munge <- MungeAll
  Ambient <- AmbientCls
  Flags <- FlagsAll
  Toggle = TRUE
  AllowAlter = TRUE
  Definers = {"A"}
SPECIFICATION ISpec
INVARIANT TypeOK
INVARIANT DistinctNamesDistinctVars
INVARIANT SameVarAllSpellings
INVARIANT LocalsShadow
INVARIANT QualifiedIgnoresLocals
INVARIANT PrivateUnreachable
INVARIANT DefOnlyModesAgree
INVARIANT RefinesNoDev
INVARIANT SlotsNoDev
INVARIANT GlobalIsLastDef
CHECK_DEADLOCK FALSE
