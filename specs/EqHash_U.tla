---------------------------------- MODULE EqHash_U ----------------------------------
(* C05: the universes.  Every value is built with the constructors of EqHash.          *)
EXTENDS EqHashImpl
Reps == <<"vector", "list", "cons", "lazy", "queue", "entry", "range">>
One == I(1)
Two == I(2)
T12 == <<One, Two>>
(* --- atoms --- *)
Atoms == << Nil, B(TRUE), B(FALSE),
            I(1), N("float", 1, 1), N("ratio", 1, 1), N("dec", 1, 1),
            I(0), N("float", 0, 1), N("nfloat", 0, 1),
            I(2), N("ratio", 1, 2), N("float", 1, 2), N("dec", 1, 2),
            NaN, Str("a"), Kw("a"), Sym("a") >>
(* --- [1 2] in every sequential representation, the empty ones, and near misses --- *)
Seqs == << S("vector", T12), S("list", T12), S("cons", T12), S("lazy", T12), S("queue", T12),
           S("entry", T12), S("range", T12),
           S("vector", <<>>), S("list", <<>>), S("lazy", <<>>), S("queue", <<>>),
           S("vector", <<N("float", 1, 1), Two>>), S("list", <<B(TRUE), Two>>), S("lazy", <<One, N("dec", 2, 1)>>),
           S("vector", <<One>>), S("vector", <<B(TRUE)>>), S("list", <<N("float", 1, 1)>>), S("queue", <<B(TRUE)>>),
           S("vector", <<Nil>>), S("list", <<B(FALSE)>>), S("vector", <<I(0)>>),
           S("vector", <<Two, One>>) >>
(* --- maps, records, sets, nesting --- *)
A1 == << <<Kw("a"), One>> >>
Colls == << M("pmap", A1), M("pmap", << <<Kw("a"), N("float", 1, 1)>> >>), M("pmap", << <<Kw("a"), B(TRUE)>> >>),
            M("rec:R", A1), M("rec:Q", A1), M("pmap", <<>>),
            M("pmap", << <<One, Str("a")>> >>), M("pmap", << <<B(TRUE), Str("a")>> >>),
            M("pmap", << <<S("vector", T12), One>> >>), M("pmap", << <<S("list", T12), One>> >>),
            St(<<One>>), St(<<N("float", 1, 1)>>), St(<<B(TRUE)>>), St(<<>>),
            St(<<S("vector", T12)>>), St(<<S("list", T12)>>),
            S("vector", <<S("vector", T12)>>), S("vector", <<S("list", T12)>>), S("list", <<S("queue", T12)>>),
            \* a record carrying a key beyond its declared fields: equal fields alone do not make records equal
            M("rec:R", << <<Kw("a"), One>>, <<Kw("b"), Two>> >>), M("pmap", << <<Kw("a"), One>>, <<Kw("b"), Two>> >>) >>
UQ == Atoms \o Seqs \o Colls
(* thorough: more numbers, three-element sequences in every representation, two-entry maps, depth 2 *)
T123 == <<One, Two, I(3)>>
More == << I(3), N("float", 2, 1), N("dec", 3, 1), N("ratio", 3, 2), N("float", 3, 2), I(-1), N("float", -1, 1),
           Str(""), Str("b"), Kw("b"), Sym("b"),
           S("vector", T123), S("list", T123), S("cons", T123), S("lazy", T123), S("queue", T123), S("range", T123),
           S("vector", <<One, Two, N("float", 3, 1)>>), S("list", <<One, B(TRUE), I(3)>>),
           S("vector", <<Str("a")>>), S("list", <<Kw("a")>>), S("vector", <<Sym("a")>>), S("lazy", <<Str("a")>>),
           M("pmap", << <<Kw("a"), One>>, <<Kw("b"), Two>> >>), M("pmap", << <<Kw("b"), Two>>, <<Kw("a"), One>> >>),
           M("pmap", << <<Kw("a"), One>>, <<Kw("b"), N("float", 2, 1)>> >>),
           M("pmap", << <<Kw("a"), S("vector", T12)>> >>), M("pmap", << <<Kw("a"), S("list", T12)>> >>),
           St(<<One, Two>>), St(<<Two, One>>), St(<<One, N("float", 2, 1)>>), St(<<One, B(TRUE)>>), St(<<Nil>>), St(<<B(FALSE)>>),
           St(<<St(<<One>>)>>), St(<<St(<<B(TRUE)>>)>>),
           S("vector", <<M("pmap", A1)>>), S("list", <<M("rec:R", A1)>>), S("vector", <<St(<<One>>)>>),
           S("vector", <<S("vector", <<S("list", T12)>>)>>), S("list", <<S("lazy", <<S("vector", T12)>>)>>) >>
UT == UQ \o More
(* keys of the lookup machine: positions in UQ *)
IndexOf(v, u) == CHOOSE i \in 1..Len(u) : u[i] = v
KeysQ == << 1, 2, 3, 4, 5, 6, 7, 8, 10, 16, 17,          \* nil true false 1 1.0 1(ratio) 1M 0 -0.0 "a" :a
            19, 20, 21, 22, 23, 24, 25,                  \* [1 2] as vector list cons lazy queue entry range
            26, 27,                                      \* [] ()
            31, 33, 34,                                  \* (true 2), [1], [true]
            41, 44, 51, 53 >>                            \* {:a 1}, record R, #{1}, #{true}
(* thorough: more keys (positions in UT): the quick ones plus 1/2 0.5 0.5M, (1.0 2)-like near misses,   *)
(* nested and two-entry collections                                                                   *)
KeysT == KeysQ \o << 12, 13, 14, 28, 29, 30, 32, 35, 36, 37, 38, 42, 43, 45, 52, 55, 56, 57, 58, 59 >>
=====================================================================================
