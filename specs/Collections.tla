------------------------------- MODULE Collections -------------------------------
(* C04 -- persistent collections are immutable values that behave like their model.    *)
(*                                                                                    *)
(* The state is a HEAP of versions: every operation picks ANY earlier version (so      *)
(* histories branch), computes its result on a plain mathematical model -- a sequence  *)
(* (vector, list, queue), a finite set, a finite map (function) -- and appends it.     *)
(* Nothing ever changes an entry of the heap (action property AppendOnly); that is     *)
(* what "immutable value" means, and what the replayer re-checks on the real objects   *)
(* after every step.  Transients are the only mutable things; persistent! kills them.  *)
(*                                                                                    *)
(* One collection type per run (constant Ty).  Values are integer codes:               *)
(*   0 = nil, 1 2 3 = three integers with the same hash (-1, -2, -(2^61+1)), 7 8 = the  *)
(*   values an update function produces, 10+n = the integer n.                         *)
(* Vector index arguments: n >= 0 the index n, -1 = nil, -2 = an index far out of      *)
(*   range.  (Negative indices are not used: the repository's own tests pin Python's   *)
(*   from-the-end meaning for `get`, the property's sequence model has no such index.) *)
(* Metadata: 0 = nil, 1 2 = two maps.  An entry carries the SET of metadata values     *)
(* the property allows for it: a singleton, except after the operations for which the  *)
(* property does not say whether metadata is carried over (pop of a vector/list,       *)
(* merge, persistent!), where {the source's metadata, nil} is allowed.                 *)
EXTENDS Integers, Sequences, FiniteSets, TLC, Json

CONSTANTS Ty,        \* "vec" | "list" | "queue" | "set" | "map"
          Elems,     \* element / key codes used as arguments of mutators
          KeySeq,    \* sequence of all key codes probed by get / contains? (sets and maps)
          MaxProbe,  \* vectors, lists: nth / get / contains? are probed at -1, -2, 0..MaxProbe
          Metas,     \* metadata codes with-meta is tried with
          MaxDepth,  \* length of the histories
          MaxSize,   \* no collection grows beyond this size
          Shard, NShards, \* "tree": only the subtrees whose second action falls into this shard (NShards = 1: all)
          Mode,      \* "tree": exhaustive, one line per node | "sim": two-phase random step, one line per history
          Bug        \* "none" | a deliberate fault of the MODEL that the laws must reject (anti-vacuity)

VARIABLES heap,      \* sequence of [xs |-> model value, ms |-> set of allowed metadata codes]
          trans,     \* sequence of [xs |-> model value, alive |-> BOOLEAN, src |-> heap index]
          hist,      \* the steps so far (each with the observations the implementation must reproduce)
          nxt        \* "sim" mode: the chosen action, not yet performed
vars == <<heap, trans, hist, nxt>>

NIL == 0
VA == 7
VB == 8
ERR == -9            \* an observer raises
UNSUP == -8          \* observer not defined for this type (not compared)
IsSeq == Ty \in {"vec", "list", "queue"}
HasTransient == Ty \in {"vec", "set", "map"}

(* ------------------------------ model values ---------------------------------------- *)
EmptyVal == IF IsSeq THEN <<>> ELSE IF Ty = "set" THEN {} ELSE [x \in {} |-> 0]
Size(xs) == IF IsSeq THEN Len(xs) ELSE IF Ty = "set" THEN Cardinality(xs) ELSE Cardinality(DOMAIN xs)
MapSet(m, k, v) == [x \in DOMAIN m \cup {k} |-> IF x = k THEN v ELSE m[x]]
MapDel(m, k) == [x \in DOMAIN m \ {k} |-> m[x]]
MapOver(m, n) == [x \in DOMAIN m \cup DOMAIN n |-> IF x \in DOMAIN n THEN n[x] ELSE m[x]]     \* n wins
Rev(s) == [i \in 1..Len(s) |-> s[Len(s) + 1 - i]]
Front(s) == SubSeq(s, 1, Len(s) - 1)
F(fc, old) == IF fc = 1 THEN (IF old = NIL THEN VA ELSE VB) ELSE NIL      \* the two update functions

Ok(xs, ms) == [ok |-> TRUE, xs |-> xs, ms |-> ms]
Fail == [ok |-> FALSE, xs |-> EmptyVal, ms |-> {NIL}]
Lenient(ms) == ms \cup {NIL}

(* the result of every mutator on an entry e = [xs, ms]; Fail = the operation raises *)
ConjR(e, x) == CASE Ty \in {"vec", "queue"} -> Ok(Append(e.xs, x), e.ms)
                 [] Ty = "list" -> Ok(<<x>> \o e.xs, e.ms)
                 [] Ty = "set" -> Ok(e.xs \cup {x}, e.ms)
ConjEntryR(e, k, v) == Ok(MapSet(e.xs, k, v), e.ms)                                   \* map: (conj m [k v])
ValidIdx(xs, k) == k >= 0 /\ k < Len(xs)
AssocR(e, k, v) == IF Ty = "map" THEN Ok(MapSet(e.xs, k, v), e.ms)
                   ELSE IF ValidIdx(e.xs, k) THEN Ok([e.xs EXCEPT ![k + 1] = v], e.ms)
                   ELSE IF k = Len(e.xs) THEN Ok(Append(e.xs, v), e.ms)               \* assoc at the end appends
                   ELSE Fail                                                          \* beyond the end / nil index
DissocR(e, k) == Ok(MapDel(e.xs, k), e.ms)
DisjR(e, x) == Ok(e.xs \ {x}, e.ms)
PopR(e) == IF Len(e.xs) = 0 THEN Fail
           ELSE CASE Ty = "vec" -> Ok(IF Bug = "vecpopfront" THEN Tail(e.xs) ELSE Front(e.xs), Lenient(e.ms))
                  [] Ty = "list" -> Ok(Tail(e.xs), Lenient(e.ms))
                  [] Ty = "queue" -> Ok(Tail(e.xs), e.ms)
IntoR(e, s) == CASE Ty \in {"vec", "queue"} -> Ok(e.xs \o s.xs, e.ms)
                 [] Ty = "list" -> Ok(Rev(s.xs) \o e.xs, e.ms)
                 [] Ty = "set" -> Ok(e.xs \cup s.xs, e.ms)
                 [] Ty = "map" -> Ok(MapOver(e.xs, s.xs), e.ms)
MergeR(e, s) == Ok(IF Bug = "mergeleft" THEN MapOver(s.xs, e.xs) ELSE MapOver(e.xs, s.xs), Lenient(e.ms))
EmptyR(e) == Ok(EmptyVal, e.ms)
WithMetaR(e, m) == Ok(e.xs, {m})
UpdateR(e, k, fc) == IF Ty = "map" THEN Ok(MapSet(e.xs, k, F(fc, IF k \in DOMAIN e.xs THEN e.xs[k] ELSE NIL)), e.ms)
                     ELSE IF ValidIdx(e.xs, k) THEN Ok([e.xs EXCEPT ![k + 1] = F(fc, @)], e.ms)
                     ELSE IF k = Len(e.xs) THEN Ok(Append(e.xs, F(fc, NIL)), e.ms)
                     ELSE Fail

(* ------------------------------ observers ------------------------------------------- *)
Peek(xs) == IF ~IsSeq THEN UNSUP ELSE IF Len(xs) = 0 THEN NIL ELSE IF Ty = "vec" THEN xs[Len(xs)] ELSE xs[1]
Nth(xs, k) == IF Ty \notin {"vec", "list"} THEN UNSUP ELSE IF ValidIdx(xs, k) THEN xs[k + 1] ELSE ERR
Get(xs, k) == CASE Ty = "vec" -> IF ValidIdx(xs, k) THEN xs[k + 1] ELSE NIL
                [] Ty \in {"list", "queue"} -> NIL
                [] Ty = "set" -> IF k \in xs THEN k ELSE NIL
                [] Ty = "map" -> IF k \in DOMAIN xs THEN xs[k] ELSE NIL
Has(xs, k) == CASE Ty = "vec" -> IF ValidIdx(xs, k) THEN 1 ELSE 0
                [] Ty \in {"list", "queue"} -> UNSUP
                [] Ty = "set" -> IF k \in xs THEN 1 ELSE 0
                [] Ty = "map" -> IF k \in DOMAIN xs THEN 1 ELSE 0
Probes == IF IsSeq THEN <<-1, -2>> \o [i \in 1..(MaxProbe + 1) |-> i - 1] ELSE KeySeq
(* what the implementation must show for a value: the value itself (count and seq are read off it), *)
(* peek, and nth / get / contains? at every probe                                                  *)
Items(xs) == IF Ty = "map" THEN {<<k, xs[k]>> : k \in DOMAIN xs} ELSE xs
Obs(e) == [xs |-> Items(e.xs), n |-> Size(e.xs), ms |-> e.ms, peek |-> Peek(e.xs),
           nth |-> [p \in 1..Len(Probes) |-> Nth(e.xs, Probes[p])],
           get |-> [p \in 1..Len(Probes) |-> Get(e.xs, Probes[p])],
           has |-> [p \in 1..Len(Probes) |-> Has(e.xs, Probes[p])]]

(* ------------------------------ actions --------------------------------------------- *)
(* an action is a record; unused fields are 0 *)
A(a, i, j, k, v) == [a |-> a, i |-> i, j |-> j, k |-> k, v |-> v]
NoAct == A("", 0, 0, 0, 0)
H == 1..Len(heap)
Live == {t \in 1..Len(trans) : trans[t].alive}
Dead == {t \in 1..Len(trans) : ~trans[t].alive}
(* index arguments worth trying on a vector of length n *)
IdxArgs(n) == IF Mode = "sim" THEN 0..(n + 1) \cup {-1, -2} ELSE {0, n, n + 1, -1}
VArg == IF Mode = "sim" THEN Elems ELSE {1}          \* the value stored by assoc: irrelevant to structure
(* maps, exhaustive mode: a nil VALUE is stored under one key, update is tried on two keys (all in "sim") *)
NilValKeys == IF Mode = "sim" THEN Elems ELSE {1}
UpdKeys == IF Mode = "sim" THEN Elems ELSE {1, 3}

PersistentActs ==
     (IF Ty # "map" THEN {A("conj", i, 0, 0, x) : i \in H, x \in Elems} ELSE {})
  \cup (IF Ty = "map" THEN {A("conje", i, 0, k, 1) : i \in H, k \in Elems \ {NIL}} ELSE {})
  \cup (IF Ty = "vec" THEN UNION {{A("assoc", i, 0, k, v) : k \in IdxArgs(Len(heap[i].xs)), v \in VArg} : i \in H} ELSE {})
  \cup (IF Ty = "map" THEN {A("assoc", i, 0, k, 2) : i \in H, k \in Elems} \cup {A("assoc", i, 0, k, NIL) : i \in H, k \in NilValKeys} ELSE {})
  \cup (IF Ty = "map" THEN {A("dissoc", i, 0, k, 0) : i \in H, k \in Elems} ELSE {})
  \cup (IF Ty = "set" THEN {A("disj", i, 0, 0, x) : i \in H, x \in Elems} ELSE {})
  \cup (IF IsSeq THEN {A("pop", i, 0, 0, 0) : i \in H} ELSE {})
  \cup {A("into", i, j, 0, 0) : i \in H, j \in H}
  \cup (IF Ty = "map" THEN {A("merge", i, j, 0, 0) : i \in H, j \in H} ELSE {})
  \cup {A("empty", i, 0, 0, 0) : i \in H}
  \cup {A("withmeta", i, 0, 0, m) : i \in H, m \in Metas}
  \cup (IF Ty = "vec" THEN UNION {{A("update", i, 0, k, fc) : k \in IdxArgs(Len(heap[i].xs)) \ {-1}, fc \in {1}} : i \in H} ELSE {})
  \cup (IF Ty = "map" THEN {A("update", i, 0, k, fc) : i \in H, k \in UpdKeys, fc \in {1, 2}} ELSE {})
TransientActs ==
  IF ~HasTransient THEN {} ELSE
     {A("transient", i, 0, 0, 0) : i \in H}
  \cup (IF Ty # "map" THEN {A("conj!", t, 0, 0, x) : t \in Live, x \in Elems} ELSE {})
  \cup (IF Ty = "map" THEN {A("assoc!", t, 0, k, 2) : t \in Live, k \in Elems} \cup {A("assoc!", t, 0, k, NIL) : t \in Live, k \in NilValKeys} ELSE {})
  \cup (IF Ty = "vec" THEN UNION {{A("assoc!", t, 0, k, 1) : k \in IdxArgs(Len(trans[t].xs))} : t \in Live} ELSE {})
  \cup (IF Ty = "map" THEN {A("dissoc!", t, 0, k, 0) : t \in Live, k \in Elems} ELSE {})
  \cup (IF Ty = "set" THEN {A("disj!", t, 0, 0, x) : t \in Live, x \in Elems} ELSE {})
  \cup (IF Ty = "vec" THEN {A("pop!", t, 0, 0, 0) : t \in Live} ELSE {})
  \cup {A("persistent!", t, 0, 0, 0) : t \in Live}
  (* use after persistent!: the outcome is unspecified (may raise), but no value may change *)
  \cup {A("zombie", t, 0, 0, x) : t \in Dead, x \in {1}}
Acts == PersistentActs \cup TransientActs

(* result of a persistent action: [ok, xs, ms] *)
Result(a) ==
  LET e == heap[a.i] IN
  CASE a.a = "conj" -> ConjR(e, a.v)
    [] a.a = "conje" -> ConjEntryR(e, a.k, a.v)
    [] a.a = "assoc" -> AssocR(e, a.k, a.v)
    [] a.a = "dissoc" -> DissocR(e, a.k)
    [] a.a = "disj" -> DisjR(e, a.v)
    [] a.a = "pop" -> PopR(e)
    [] a.a = "into" -> IntoR(e, heap[a.j])
    [] a.a = "merge" -> MergeR(e, heap[a.j])
    [] a.a = "empty" -> EmptyR(e)
    [] a.a = "withmeta" -> WithMetaR(e, a.v)
    [] a.a = "update" -> UpdateR(e, a.k, a.v)
(* result of an operation on a live transient: the transient's new model value, or Fail *)
TResult(a) ==
  LET e == [xs |-> trans[a.i].xs, ms |-> {NIL}] IN
  CASE a.a = "conj!" -> ConjR(e, a.v)
    [] a.a = "assoc!" -> AssocR(e, a.k, a.v)
    [] a.a = "dissoc!" -> DissocR(e, a.k)
    [] a.a = "disj!" -> DisjR(e, a.v)
    [] a.a = "pop!" -> IF Len(e.xs) = 0 THEN Fail ELSE Ok(Front(e.xs), {NIL})

IsPersistentAct(a) == a.a \in {"conj", "conje", "assoc", "dissoc", "disj", "pop", "into", "merge", "empty",
                               "withmeta", "update"}
IsTMut(a) == a.a \in {"conj!", "assoc!", "dissoc!", "disj!", "pop!"}
NoObs == [none |-> TRUE]
Tup(a) == <<a.a, a.i, a.j, a.k, a.v>>                      \* how an action is printed
StepRec(a, r, o, tn) == [act |-> Tup(a), r |-> r, o |-> o, tn |-> tn]

(* "sim": a second initial version with 31 elements (the integers 0..30), built by the replayer with   *)
(* conj / assoc from the empty collection, so that the histories work around 32 elements               *)
SeedCodes == 10..40
SeedVal == IF IsSeq THEN [i \in 1..31 |-> 9 + i] ELSE IF Ty = "set" THEN SeedCodes ELSE [k \in SeedCodes |-> 1]
Init == /\ heap = IF Mode = "sim" THEN <<[xs |-> EmptyVal, ms |-> {NIL}], [xs |-> SeedVal, ms |-> {NIL}]>>
                  ELSE <<[xs |-> EmptyVal, ms |-> {NIL}]>>
        /\ trans = <<>> /\ hist = <<>> /\ nxt = NoAct

Do(a) ==
  IF IsPersistentAct(a) THEN
       LET r == Result(a) IN
         IF r.ok /\ Size(r.xs) <= MaxSize
           THEN LET e == [xs |-> r.xs, ms |-> r.ms] IN
                /\ heap' = Append(heap, e) /\ trans' = trans
                /\ hist' = Append(hist, StepRec(a, "ok", Obs(e), -1))
           ELSE IF r.ok THEN UNCHANGED <<heap, trans, hist>>       \* results beyond MaxSize are not generated
           ELSE /\ UNCHANGED <<heap, trans>>
                /\ hist' = Append(hist, StepRec(a, "err", NoObs, -1))
  ELSE IF a.a = "transient" THEN
       /\ trans' = Append(trans, [xs |-> heap[a.i].xs, alive |-> TRUE, src |-> a.i])
       /\ heap' = heap
       /\ hist' = Append(hist, StepRec(a, "ok", NoObs, Size(heap[a.i].xs)))
  ELSE IF IsTMut(a) THEN
       LET r == TResult(a) IN
         IF r.ok /\ Size(r.xs) <= MaxSize
           THEN /\ trans' = [trans EXCEPT ![a.i].xs = r.xs] /\ heap' = heap
                /\ hist' = Append(hist, StepRec(a, "ok", NoObs, Size(r.xs)))
           ELSE IF r.ok THEN UNCHANGED <<heap, trans, hist>>
           ELSE /\ UNCHANGED <<heap, trans>>
                /\ hist' = Append(hist, StepRec(a, "err", NoObs, Size(trans[a.i].xs)))
  ELSE IF a.a = "persistent!" THEN
       LET e == [xs |-> trans[a.i].xs, ms |-> Lenient(heap[trans[a.i].src].ms)] IN
       /\ heap' = Append(heap, e) /\ trans' = [trans EXCEPT ![a.i].alive = FALSE]
       /\ hist' = Append(hist, StepRec(a, "ok", Obs(e), -1))
  ELSE (* zombie: anything may happen to the dead transient, nothing to anything else *)
       /\ UNCHANGED <<heap, trans>>
       /\ hist' = Append(hist, StepRec(a, "any", NoObs, -1))

ActNames == <<"conj", "conje", "assoc", "dissoc", "disj", "pop", "into", "merge", "empty", "withmeta", "update",
              "transient", "conj!", "assoc!", "dissoc!", "disj!", "pop!", "persistent!", "zombie">>
NameIdx(n) == CHOOSE i \in 1..Len(ActNames) : ActNames[i] = n
(* sharding is by the SECOND action of a history (the subtrees below the first actions are too uneven) *)
(* (IF, not \/ : TLC explores every disjunct of a disjunction inside the next-state relation) *)
InShard(a) == IF NShards = 1 \/ Len(hist) # 1 THEN TRUE
              ELSE (NameIdx(a.a) + NameIdx(hist[1].act[1]) + a.i + 2 * a.j + 3 * (a.k + 2) + 5 * a.v
                    + 7 * hist[1].act[5]) % NShards = Shard
NextTree == Len(hist) < MaxDepth /\ (\E a \in Acts : InShard(a) /\ Do(a)) /\ nxt' = nxt
(* "sim": a random step.  The action is drawn with TLC's RandomElement (seeded by -seed): first the kind  *)
(* (KindSeq: a weighted list, growth is favoured so that collections cross the 32-element boundary of     *)
(* the underlying tries), then the source (half of the time the newest version), then the arguments.     *)
(* A draw that is not applicable (no live transient, ...) is skipped.                                      *)
KindSeq ==
  CASE Ty = "vec" -> <<"conj", "conj", "conj", "assoc", "assoc", "pop", "pop", "into", "empty", "withmeta", "update",
                       "transient", "conj!", "conj!", "assoc!", "pop!", "persistent!", "zombie">>
    [] Ty \in {"list", "queue"} -> <<"conj", "conj", "conj", "pop", "pop", "into", "empty", "withmeta">>
    [] Ty = "set" -> <<"conj", "conj", "conj", "disj", "disj", "into", "empty", "withmeta",
                       "transient", "conj!", "conj!", "disj!", "persistent!", "zombie">>
    [] Ty = "map" -> <<"conje", "assoc", "assoc", "assoc", "dissoc", "dissoc", "into", "merge", "empty", "withmeta",
                       "update", "update", "transient", "assoc!", "assoc!", "dissoc!", "persistent!", "zombie">>
Pick(S) == RandomElement(S)
RandAct ==
  LET kind == KindSeq[Pick(1..Len(KindSeq))]
      i == IF Pick({0, 1}) = 1 THEN Len(heap) ELSE Pick(H)
      j == Pick(H)
      x == Pick(Elems)
      n == Len(heap[i].xs)
  IN CASE kind \in {"conj", "disj"} -> A(kind, i, 0, 0, x)
       [] kind = "conje" -> A(kind, i, 0, x, Pick({NIL, 1}))
       [] kind = "assoc" -> IF Ty = "map" THEN A(kind, i, 0, x, Pick({NIL, 2}))
                            ELSE A(kind, i, 0, Pick(0..(n + 1) \cup {n, n, -1, -2}), x)
       [] kind = "dissoc" -> A(kind, i, 0, x, 0)
       [] kind \in {"pop", "empty"} -> A(kind, i, 0, 0, 0)
       [] kind \in {"into", "merge"} -> A(kind, i, j, 0, 0)
       [] kind = "withmeta" -> A(kind, i, 0, 0, Pick(Metas))
       [] kind = "update" -> IF Ty = "map" THEN A(kind, i, 0, x, Pick({1, 2}))
                             ELSE A(kind, i, 0, Pick(0..(n + 1) \cup {-2}), 1)
       [] kind = "transient" -> A(kind, i, 0, 0, 0)
       [] OTHER -> (* an operation on a transient *)
            LET ts == IF kind = "zombie" THEN Dead ELSE Live IN
            IF ts = {} THEN NoAct
            ELSE LET t == Pick(ts)  tn == IF IsSeq THEN Len(trans[t].xs) ELSE 0 IN
                 CASE kind \in {"conj!", "disj!"} -> A(kind, t, 0, 0, x)
                   [] kind = "assoc!" -> IF Ty = "map" THEN A(kind, t, 0, x, Pick({NIL, 2}))
                                         ELSE A(kind, t, 0, Pick(0..(tn + 1) \cup {-1}), x)
                   [] kind = "dissoc!" -> A(kind, t, 0, x, 0)
                   [] OTHER -> A(kind, t, 0, 0, IF kind = "zombie" THEN 1 ELSE 0)
NextSim == IF nxt = NoAct
             THEN Len(hist) < MaxDepth /\ nxt' = RandAct /\ UNCHANGED <<heap, trans, hist>>
             ELSE Do(nxt) /\ nxt' = NoAct
Next == IF Mode = "sim" THEN NextSim ELSE NextTree

(* ------------------------------ output ---------------------------------------------- *)
EmitTree == PrintT(<<"NODE", ToJson([p |-> [i \in 1..Len(hist) |-> hist[i].act],
                                     s |-> IF hist = <<>> THEN StepRec(NoAct, "ok", Obs(heap[1]), -1)
                                           ELSE hist[Len(hist)]])>>)
EmitSim == (Len(hist) = MaxDepth /\ nxt = NoAct) =>
             PrintT(<<"BEH", ToJson([root |-> Obs(heap[1]), seed |-> Obs(heap[2]), steps |-> hist])>>)
Emit == IF Mode = "sim" THEN EmitSim ELSE EmitTree

(* ------------------------------ what TLC checks ------------------------------------- *)
(* no action touches an entry of the heap: the heap only grows at its end *)
AppendOnly == [][Len(heap') >= Len(heap) /\ SubSeq(heap', 1, Len(heap)) = heap]_vars
(* a dead transient stays dead, a transient's source never changes *)
TransientDiscipline == [][\A t \in 1..Len(trans) : /\ trans'[t].src = trans[t].src
                                                    /\ (~trans[t].alive => trans'[t] = trans[t])]_vars
(* algebraic laws of the model, on every value that any history produces *)
E(xs) == [xs |-> xs, ms |-> {NIL}]
Laws ==
  \A i \in H : LET e == heap[i]  xs == e.xs IN
    /\ Size(xs) <= MaxSize
    /\ IsSeq => /\ \A x \in Elems : /\ Ty \in {"vec", "list"} => PopR(ConjR(e, x)).xs = xs        \* pop . conj = id
                                    /\ Ty \in {"vec", "list"} => Peek(ConjR(e, x).xs) = x
                                    /\ Ty = "queue" => Peek(ConjR(e, x).xs) = (IF Len(xs) = 0 THEN x ELSE xs[1])
                                    /\ Size(ConjR(e, x).xs) = Size(xs) + 1
                /\ Len(xs) > 0 => /\ PopR(e).ok /\ Size(PopR(e).xs) = Size(xs) - 1
                                  /\ Ty = "queue" => PopR(e).xs = Tail(xs)                        \* first in, first out
                /\ Len(xs) = 0 => ~PopR(e).ok /\ Peek(xs) = NIL
                /\ \A j \in H : Size(IntoR(e, heap[j]).xs) = Size(xs) + Size(heap[j].xs)
    /\ Ty = "vec" => /\ \A k \in 0..(Len(xs) - 1) : /\ Get(AssocR(e, k, VA).xs, k) = VA
                                                    /\ AssocR(AssocR(e, k, VA), k, xs[k + 1]).xs = xs
                                                    /\ Nth(xs, k) = Get(xs, k) /\ Has(xs, k) = 1
                     /\ AssocR(e, Len(xs), VA).xs = ConjR(e, VA).xs
                     /\ ~AssocR(e, Len(xs) + 1, VA).ok /\ ~AssocR(e, -1, VA).ok /\ ~AssocR(e, -2, VA).ok
                     /\ Nth(xs, Len(xs)) = ERR /\ Get(xs, Len(xs)) = NIL /\ Has(xs, Len(xs)) = 0
    /\ Ty = "set" => \A x \in Elems : /\ x \notin xs => DisjR(ConjR(e, x), x).xs = xs
                                      /\ x \in xs => ConjR(e, x).xs = xs /\ ConjR(DisjR(e, x), x).xs = xs
                                      /\ Has(ConjR(e, x).xs, x) = 1 /\ Has(DisjR(e, x).xs, x) = 0
                                      /\ \A y \in Elems \ {x} : Has(DisjR(e, x).xs, y) = Has(xs, y)   \* disj touches nothing else
    /\ Ty = "map" => \A k \in Elems :
                        /\ k \notin DOMAIN xs => DissocR(AssocR(e, k, VA), k).xs = xs
                        /\ k \in DOMAIN xs => AssocR(DissocR(e, k), k, xs[k]).xs = xs
                        /\ Get(AssocR(e, k, NIL).xs, k) = NIL /\ Has(AssocR(e, k, NIL).xs, k) = 1    \* a nil value is present
                        /\ Has(DissocR(e, k).xs, k) = 0
                        /\ \A y \in Elems \ {k} : Get(DissocR(e, k).xs, y) = Get(xs, y)              \* dissoc touches nothing else
                        /\ \A j \in H : /\ MergeR(e, heap[j]).xs = IntoR(e, heap[j]).xs
                                        /\ \A y \in DOMAIN heap[j].xs : Get(MergeR(e, heap[j]).xs, y) = heap[j].xs[y]
                        /\ UpdateR(e, k, 1).xs = AssocR(e, k, F(1, Get(xs, k))).xs
    /\ IntoR(e, E(EmptyVal)).xs = xs
    /\ EmptyR(e).xs = EmptyVal /\ EmptyR(e).ms = e.ms
    /\ \A m \in Metas : WithMetaR(e, m).xs = xs /\ WithMetaR(e, m).ms = {m}
(* (persistent!(transient v)) = v holds by construction: a transient starts as a copy of its source) *)
TransientLaws == \A t \in 1..Len(trans) : trans[t].src \in H /\ Size(trans[t].xs) <= MaxSize
===================================================================================
