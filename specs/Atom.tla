----------------------------------- MODULE Atom -----------------------------------
(* C12 -- required behaviour of an atom: a linearizable cell.                          *)
(*                                                                                    *)
(* Every call takes effect atomically at one instant (Lin) between its invocation and  *)
(* its return; the result returned is the one computed at that instant; a value the    *)
(* validator rejects is never installed; a watch is notified with the (old, new) pair  *)
(* of a transition that really happened, by the thread that made it, before its call   *)
(* returns.  Operations: swap, swapvals (update function), reset, resetvals, cas, deref *)
(*                                                                                    *)
(* This module only defines the operators and the actions; Atom_MC/AtomImpl/Atom_Trace *)
(* instantiate it.                                                                     *)
EXTENDS Integers, Sequences, FiniteSets, TLC

CONSTANTS Threads

(* ---- values: tagged records ------------------------------------------------------- *)
IntV(i) == [ty |-> "int", i |-> i]
NaNV == [ty |-> "nan", i |-> 0]       \* a value that is not equal to itself under Python's ==
NilV == [ty |-> "nil", i |-> 0]
BoolV(b) == [ty |-> "bool", i |-> IF b THEN 1 ELSE 0]
PairV(x, y) == [ty |-> "pair", a |-> x, b |-> y]
ExcV(c) == [ty |-> "exc", c |-> c]    \* c \in {"invalid", "fthrow"}

(* ---- update functions (total on the value universe) ------------------------------- *)
(* [ok, v]: ok = FALSE means the function raises                                       *)
F(f, v) == CASE f = "inc"   -> [ok |-> TRUE, v |-> IF v.ty = "int" THEN IntV(v.i + 1) ELSE v]
             [] f = "dbl"   -> [ok |-> TRUE, v |-> IF v.ty = "int" THEN IntV(2 * v.i) ELSE v]
             [] f = "zero"  -> [ok |-> TRUE, v |-> IntV(0)]
             [] f = "tonan" -> [ok |-> TRUE, v |-> NaNV]
             [] f = "throw" -> [ok |-> FALSE, v |-> v]
             [] f = "id"    -> [ok |-> TRUE, v |-> v]

(* ---- validators ------------------------------------------------------------------- *)
Valid(vd, v) == CASE vd = "none" -> TRUE
                  [] vd = "lt3"  -> v.ty = "int" /\ v.i < 3
                  [] vd = "int"  -> v.ty = "int"

(* user-level equality of compare-and-set!: numbers by value; NaN equals nothing        *)
SameV(x, y) == x = y /\ x.ty # "nan"

(* ---- the atomic effect of one call ------------------------------------------------ *)
(* call = [op, f, a, b]; returns [nv (new value), res (result), inst (installed?)]     *)
Apply(c, v, vd) ==
  CASE c.op \in {"swap", "swapvals"} ->
         LET r == F(c.f, v) IN
           IF ~r.ok THEN [nv |-> v, res |-> ExcV("fthrow"), inst |-> FALSE]
           ELSE IF ~Valid(vd, r.v) THEN [nv |-> v, res |-> ExcV("invalid"), inst |-> FALSE]
           ELSE [nv |-> r.v, res |-> IF c.op = "swap" THEN r.v ELSE PairV(r.v, v), inst |-> TRUE]
    [] c.op \in {"reset", "resetvals"} ->
           IF ~Valid(vd, c.a) THEN [nv |-> v, res |-> ExcV("invalid"), inst |-> FALSE]
           ELSE [nv |-> c.a, res |-> IF c.op = "reset" THEN c.a ELSE PairV(c.a, v), inst |-> TRUE]
    [] c.op = "cas" ->
           IF ~Valid(vd, c.b) THEN [nv |-> v, res |-> ExcV("invalid"), inst |-> FALSE]
           ELSE IF SameV(v, c.a) THEN [nv |-> c.b, res |-> BoolV(TRUE), inst |-> TRUE]
           ELSE [nv |-> v, res |-> BoolV(FALSE), inst |-> FALSE]
    [] c.op = "deref" -> [nv |-> v, res |-> v, inst |-> FALSE]

VARIABLES val,      \* the atom's value
          pend      \* per thread: the pending call, or None
avars == <<val, pend>>

None == [op |-> "none"]
Pending(c, watching) ==
  [op |-> c.op, f |-> c.f, a |-> c.a, b |-> c.b, lin |-> FALSE, res |-> NilV,
   old |-> NilV, new |-> NilV, owe |-> FALSE, watching |-> watching]

AInit(v0) == val = v0 /\ pend = [t \in Threads |-> None]

ACall(t, c, watching) == /\ pend[t] = None
                         /\ pend' = [pend EXCEPT ![t] = Pending(c, watching)]
                         /\ UNCHANGED val

(* the linearization point: silent in traces *)
ALin(t, vd) == /\ pend[t] # None /\ ~pend[t].lin
               /\ LET r == Apply(pend[t], val, vd) IN
                    /\ val' = r.nv
                    /\ pend' = [pend EXCEPT ![t] = [@ EXCEPT !.lin = TRUE, !.res = r.res, !.old = val,
                                                               !.new = r.nv,
                                                               !.owe = r.inst /\ pend[t].watching]]

(* the watch of the atom is told about the transition this call made *)
AWatch(t, old, new) == /\ pend[t] # None /\ pend[t].lin /\ pend[t].owe
                       /\ old = pend[t].old /\ new = pend[t].new
                       /\ pend' = [pend EXCEPT ![t] = [@ EXCEPT !.owe = FALSE]]
                       /\ UNCHANGED val

ARet(t, res) == /\ pend[t] # None /\ pend[t].lin /\ ~pend[t].owe
                /\ res = pend[t].res
                /\ pend' = [pend EXCEPT ![t] = None]
                /\ UNCHANGED val
===================================================================================
