CONSTANTS Threads <- T1  N = 2  FailPolicy = "retry"  Progs <- Progs1  Plans <- PlansB2
          LockUnderGIL = FALSE  ErrLeavesComputing = FALSE  Record = TRUE  Steer = TRUE
SPECIFICATION Spec
INVARIANT Simulates
CONSTRAINT Emit
