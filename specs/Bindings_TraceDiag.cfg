SPECIFICATION Spec
CONSTRAINT Prefix
CHECK_DEADLOCK FALSE
