---------------------------------- MODULE Cache ----------------------------------
(* C14 -- cached namespace bytecode is transparent and never used when invalid.        *)
(*                                                                                    *)
(* The REQUIRED behaviour of the namespace loader (basilisp/importer.py) and its      *)
(* environment:                                                                       *)
(*   hist    the source file: one entry [mtime, size] per version written so far; the  *)
(*           current source is  Src = [version, mtime, size, ok]  (ok = FALSE: loading *)
(*           that version raises -- versions in BadVersions)                           *)
(*   cache   the .lpyc file: absent, or                                                *)
(*           [magicOk, mtimeBytes 0..4, mtimeVal, sizeBytes 0..4, sizeVal,             *)
(*            payload in {none, partial, full}, ofVersion, writerSeed]                 *)
(*           -- a crash while the file is written leaves a PREFIX: 12 prefix classes   *)
(*   proc    the loading process: [seed, write (bytecode writing enabled), phase,      *)
(*           stat (source stat taken when the load starts), got (what it read),        *)
(*           seen (versions that were current during the load), full (file being       *)
(*           written), wpos (prefix class written so far)]                             *)
(*   ran     which version's code this load executed, from where, and whether it ran   *)
(*           to completion                                                            *)
(*   snap    the observation taken of the loaded namespace                             *)
(*                                                                                    *)
(* One action per externally visible step of importer.exec_module:                     *)
(*   StartLoad (stat the source) - ReadCache - Decide - ExecCached | Recompile -       *)
(*   WriteBegin (open 'w+b' truncates) - WriteBytes (one prefix class further) -       *)
(*   WriteEnd - Snapshot - Exit;   Crash at any point;   the environment edits the     *)
(*   source (EditSource), removes the cache, or leaves a file with another magic.      *)
(*                                                                                    *)
(* Environment assumption (the property calls a cache stale when "source mtime or size *)
(* differs"): distinct versions of the source have distinct (mtime, size) -- unless    *)
(* AllowUndetectableEdit, a negative configuration showing that the assumption is      *)
(* necessary.  mtime may move backwards (any unused value may be chosen).              *)
(*                                                                                    *)
(* Mechanism switches, all TRUE/full in the required behaviour; each one switched off   *)
(* is a mutant the design check must reject (anti-vacuity):                            *)
(*   Checks        subset of {"magic","mtime","size","payload"} the decision looks at  *)
(*   StatFirst     the source is stat'ed BEFORE it is read (FALSE: header written from  *)
(*                 a stat taken after compiling)                                       *)
(*   WriteOnlyOk   the cache is written only after the source ran to completion        *)
EXTENDS Integers, Sequences, FiniteSets, TLC

CONSTANTS Seeds, MaxVersion, BadVersions, MTimes, Sizes,
          EditDuringLoad, AllowUndetectableEdit,
          Checks, StatFirst, WriteOnlyOk

VARIABLES hist, cache, proc, ran, snap
cvars == <<hist, cache, proc, ran, snap>>

AllChecks == {"magic", "mtime", "size", "payload"}
(* what the loader does with an exception while reading / decoding the cache: these     *)
(* families mean "fall back to source"; anything else escaping is a violation           *)
FallbackFamilies == {"EOFError", "ImportError", "OSError"}

(* ------------------------------ values --------------------------------------------- *)
Absent == [ty |-> "absent"]
File(mg, mb, mv, sb, sv, pl, ov, ws) ==
  [ty |-> "file", magicOk |-> mg, mtimeBytes |-> mb, mtimeVal |-> mv, sizeBytes |-> sb, sizeVal |-> sv,
   payload |-> pl, ofVersion |-> ov, writerSeed |-> ws]
FullFile(st, v, s) == File(TRUE, 4, st.mtime, 4, st.size, "full", v, s)

(* the 12 prefix classes of a complete file f, in the order in which a writer passes     *)
(* through them: 0 = fewer than 4 bytes (magic incomplete, includes the empty file),     *)
(* 1..4 = magic + 0..3 bytes of mtime, 5..8 = mtime + 0..3 bytes of size, 9 = header     *)
(* only, 10 = header + proper prefix of the payload, 11 = complete                       *)
LastPos == 11
Pfx(f, i) ==
  IF i = 0 THEN [f EXCEPT !.magicOk = FALSE, !.mtimeBytes = 0, !.sizeBytes = 0, !.payload = "none"]
  ELSE IF i <= 4 THEN [f EXCEPT !.mtimeBytes = i - 1, !.sizeBytes = 0, !.payload = "none"]
  ELSE IF i <= 8 THEN [f EXCEPT !.sizeBytes = i - 5, !.payload = "none"]
  ELSE IF i = 9 THEN [f EXCEPT !.payload = "none"]
  ELSE IF i = 10 THEN [f EXCEPT !.payload = "partial"]
  ELSE f
Complete(c) == c.ty = "file" /\ c.mtimeBytes = 4 /\ c.sizeBytes = 4 /\ c.payload = "full"

NoProc == [ty |-> "none"]
NoRan == [ty |-> "none"]
NoSnap == [ty |-> "none"]
NoFile == [ty |-> "nofile"]

Version == Len(hist)
Stat == hist[Version]
OkOf(v) == v \notin BadVersions
Src == [version |-> Version, mtime |-> Stat.mtime, size |-> Stat.size, ok |-> OkOf(Version)]

(* ------------------------------ the decision --------------------------------------- *)
(* use the cache iff the magic number is right, both header fields are complete and       *)
(* equal to the source's stat, and the payload is complete                                *)
Accepts(c, st, checks) ==
  /\ c.ty = "file"
  /\ ("magic" \in checks => c.magicOk)
  /\ ("mtime" \in checks => (c.mtimeBytes = 4 /\ c.mtimeVal = st.mtime))
  /\ ("size" \in checks => (c.sizeBytes = 4 /\ c.sizeVal = st.size))
  /\ ("payload" \in checks => c.payload = "full")
  /\ c.payload # "none"      \* with nothing after the header there is nothing to execute, whatever is checked
Valid(c, s) == Accepts(c, [mtime |-> s.mtime, size |-> s.size], AllChecks) /\ c.ofVersion = s.version

(* ------------------------------ environment ---------------------------------------- *)
Idle == proc = NoProc
EnvMay == Idle \/ EditDuringLoad
UsedStats == {hist[i] : i \in 1..Len(hist)}

EditSource(m, z) ==
  /\ EnvMay /\ Version < MaxVersion
  /\ LET st == [mtime |-> m, size |-> z] IN
       /\ (st \notin UsedStats \/ (AllowUndetectableEdit /\ st = Stat))
       /\ hist' = Append(hist, st)
  /\ proc' = IF proc = NoProc THEN proc ELSE [proc EXCEPT !.seen = @ \cup {Version + 1}]
  /\ UNCHANGED <<cache, ran, snap>>

RemoveCache == /\ Idle /\ cache # Absent /\ cache' = Absent /\ UNCHANGED <<hist, proc, ran, snap>>

(* a complete file that carries another magic number (written by another release) *)
OtherMagic == /\ Idle /\ Complete(cache) /\ cache.magicOk
              /\ cache' = [cache EXCEPT !.magicOk = FALSE] /\ UNCHANGED <<hist, proc, ran, snap>>

(* ------------------------------ the loading process -------------------------------- *)
StartLoad(s, w) ==
  /\ Idle
  /\ proc' = [ty |-> "proc", seed |-> s, write |-> w, phase |-> "started", stat |-> Stat, got |-> NoFile,
              seen |-> {Version}, full |-> NoFile, wpos |-> 0]
  /\ ran' = NoRan /\ snap' = NoSnap
  /\ UNCHANGED <<hist, cache>>

ReadCache ==
  /\ proc # NoProc /\ proc.phase = "started"
  /\ proc' = [proc EXCEPT !.phase = "read", !.got = cache]      \* Absent: the read raises an OSError
  /\ UNCHANGED <<hist, cache, ran, snap>>

Decide ==
  /\ proc # NoProc /\ proc.phase = "read"
  /\ proc' = [proc EXCEPT !.phase = IF Accepts(proc.got, proc.stat, Checks) THEN "use" ELSE "fallback"]
  /\ UNCHANGED <<hist, cache, ran, snap>>

ExecCached ==
  /\ proc # NoProc /\ proc.phase = "use"
  /\ ran' = [ty |-> "ran", v |-> proc.got.ofVersion, from |-> "cache", ok |-> TRUE,
             complete |-> (Complete(proc.got) /\ proc.got.magicOk), writer |-> proc.got.writerSeed]
  /\ proc' = [proc EXCEPT !.phase = "done"]
  /\ UNCHANGED <<hist, cache, snap>>

(* read the CURRENT source, compile and execute it form by form *)
Recompile ==
  /\ proc # NoProc /\ proc.phase = "fallback"
  /\ ran' = [ty |-> "ran", v |-> Version, from |-> "source", ok |-> OkOf(Version), complete |-> TRUE,
             writer |-> proc.seed]
  /\ LET wr == proc.write /\ (OkOf(Version) \/ ~WriteOnlyOk) IN
       proc' = [proc EXCEPT !.phase = IF wr THEN "towrite" ELSE IF OkOf(Version) THEN "done" ELSE "failed",
                            !.full = IF wr THEN FullFile(proc.stat, Version, proc.seed) ELSE NoFile]
  /\ UNCHANGED <<hist, cache, snap>>

WriteBegin ==                        \* open(path, "w+b"): the file exists and is empty
  /\ proc # NoProc /\ proc.phase = "towrite"
  /\ LET f == IF StatFirst THEN proc.full      \* mutant: the header is made from a stat taken only now
              ELSE [proc.full EXCEPT !.mtimeVal = Stat.mtime, !.sizeVal = Stat.size] IN
       /\ cache' = Pfx(f, 0)
       /\ proc' = [proc EXCEPT !.phase = "writing", !.wpos = 0, !.full = f]
  /\ UNCHANGED <<hist, ran, snap>>

WriteBytes ==                        \* the file grows into the next prefix class
  /\ proc # NoProc /\ proc.phase = "writing" /\ proc.wpos < LastPos
  /\ cache' = Pfx(proc.full, proc.wpos + 1)
  /\ proc' = [proc EXCEPT !.wpos = @ + 1]
  /\ UNCHANGED <<hist, ran, snap>>

WriteEnd ==
  /\ proc # NoProc /\ proc.phase = "writing" /\ proc.wpos = LastPos
  /\ proc' = [proc EXCEPT !.phase = IF ran.ok THEN "done" ELSE "failed"]
  /\ UNCHANGED <<hist, cache, ran, snap>>

(* the observation of the loaded namespace.  idn: are keywords held by the namespace the   *)
(* very objects that code compiled in this process gets for the same keyword?  The        *)
(* required value is TRUE; the as-built model (CacheImpl) computes it from the intern      *)
(* table.  A failed load is observed as the error it raised.                               *)
Observe(idn) == [ty |-> "snap", ok |-> ran.ok, code |-> ran.v, identical |-> IF ran.ok THEN idn ELSE TRUE]
SourceSnap(v) == [ty |-> "snap", ok |-> OkOf(v), code |-> v, identical |-> TRUE]

Snapshot(idn) ==
  /\ proc # NoProc /\ proc.phase \in {"done", "failed"} /\ snap = NoSnap
  /\ snap' = Observe(idn)
  /\ UNCHANGED <<hist, cache, proc, ran>>

Exit == /\ proc # NoProc /\ proc.phase \in {"done", "failed"} /\ snap # NoSnap
        /\ proc' = NoProc /\ ran' = NoRan /\ snap' = NoSnap /\ UNCHANGED <<hist, cache>>

(* the process dies (power loss, kill): whatever prefix of the file was written stays *)
Crash == /\ proc # NoProc /\ proc.phase \notin {"done", "failed"}
         /\ proc' = NoProc /\ ran' = NoRan /\ snap' = NoSnap /\ UNCHANGED <<hist, cache>>

ProcStep(idn) == ReadCache \/ Decide \/ ExecCached \/ Recompile \/ WriteBegin \/ WriteBytes \/ WriteEnd
                 \/ Snapshot(idn) \/ Exit
Env == (\E m \in MTimes, z \in Sizes : EditSource(m, z)) \/ RemoveCache \/ OtherMagic

Init == /\ hist = <<[mtime |-> 1, size |-> 1]>> /\ cache = Absent /\ proc = NoProc
        /\ ran = NoRan /\ snap = NoSnap
Next == (\E s \in Seeds, w \in BOOLEAN : StartLoad(s, w)) \/ ProcStep(TRUE) \/ Crash \/ Env
Spec == Init /\ [][Next]_cvars /\ WF_cvars(ProcStep(TRUE))

(* ------------------------------ what TLC checks ------------------------------------- *)
TypeOK ==
  /\ Len(hist) \in 1..MaxVersion
  /\ cache = Absent \/ (cache.ty = "file" /\ cache.mtimeBytes \in 0..4 /\ cache.sizeBytes \in 0..4
                        /\ cache.payload \in {"none", "partial", "full"} /\ cache.ofVersion \in 1..MaxVersion
                        /\ cache.writerSeed \in Seeds)
  /\ proc = NoProc \/ proc.seed \in Seeds

(* never execute cached code of another version than one that was current during the load, *)
(* never execute an incomplete cache or one that carries another magic number              *)
NeverExecStale == (proc # NoProc /\ ran # NoRan /\ ran.from = "cache") => (ran.v \in proc.seen /\ ran.complete)
(* a cache that WOULD be accepted for the current source holds the current version's code  *)
CacheSound == Accepts(cache, Stat, AllChecks) => (cache.ofVersion = Version /\ OkOf(Version))
(* every load ends having executed a version that was current during the load (the current *)
(* one when the source is not edited meanwhile)                                            *)
LoadRunsCurrent == (proc # NoProc /\ proc.phase \in {"done", "failed"}) =>
                      (ran # NoRan /\ ran.v \in proc.seen /\ ran.ok = (proc.phase = "done")
                       /\ (proc.seen = {Version} => ran.v = Version))
(* after a successful load with writing enabled the cache is valid *)
ValidAfterLoad == (proc # NoProc /\ proc.phase = "done" /\ proc.write /\ proc.seen = {Version}) =>
                      Valid(cache, Src)
(* a failed load never leaves a cache behind that a later load would accept *)
FailedLeavesNoValidCache == (proc # NoProc /\ proc.phase = "failed" /\ proc.seen = {Version}) =>
                                ~Accepts(cache, Stat, AllChecks)
(* the observation of a load is that of a from-source load of a version current during the *)
(* load -- whatever the seeds of the writer of the cache and of this process               *)
SnapshotEqual == (snap # NoSnap /\ proc # NoProc) => \E v \in proc.seen : snap = SourceSnap(v)
SafetySpec == Init /\ [][Next]_cvars
(* a load that is not killed comes to an end *)
LoadTerminates == (proc # NoProc) ~> (proc = NoProc)
===================================================================================
