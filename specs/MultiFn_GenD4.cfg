CONSTANTS Tags <- TagsD  Classes = {}  Bases = {}  VecElems <- NoVecs  Dflt = "dflt"
          Edges <- EdgesD  PrefPairs <- PrefsD
          MaxDepth = 4  Prune = TRUE
INIT GInit
NEXT GNext
CONSTRAINT Emit
CHECK_DEADLOCK FALSE
