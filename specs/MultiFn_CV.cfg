CONSTANTS Tags <- TagsV  Classes = {}  Bases = {}  VecElems <- VecsV  Dflt = "dflt"
          Edges <- EdgesV  PrefPairs <- PrefsV
          DevOrder = FALSE  DevClassAnc = FALSE  ResetOn <- AllOps  CheckHier = TRUE
INIT IInit
NEXT INext
INVARIANT CacheInvisible
INVARIANT CacheCoherent
CHECK_DEADLOCK FALSE
