\* design check (quick, 2 of 2): both namespaces define plain Vars (interns shadow refers, cross-namespace links)
CONSTANTS
  NameSeq <- ClassSeq
  Munge <- MungeAll
  Ambient <- AmbientCls
  Flags <- FlagsPlain
  Toggle = FALSE
  AllowAlter = TRUE
  Definers = {"A", "B"}
SPECIFICATION ISpec
INVARIANT TypeOK
INVARIANT DistinctNamesDistinctVars
INVARIANT SameVarAllSpellings
INVARIANT LocalsShadow
INVARIANT QualifiedIgnoresLocals
INVARIANT PrivateUnreachable
INVARIANT DefOnlyModesAgree
INVARIANT RefinesNoDev
INVARIANT SlotsNoDev
INVARIANT GlobalIsLastDef
CHECK_DEADLOCK FALSE
