CONSTANTS Tags <- TagsD  Classes = {}  Bases = {}  VecElems <- NoVecs  Dflt = "dflt"
          Edges <- EdgesD  PrefPairs <- PrefsD
          DevOrder = FALSE  DevClassAnc = FALSE  ResetOn <- AllOps  CheckHier = TRUE
INIT IInit
NEXT INext
INVARIANT CacheInvisible
INVARIANT CacheCoherent
CHECK_DEADLOCK FALSE
